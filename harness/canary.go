package main

// Cross-process canary (oracle O7).
//
// Every worker process ends its batch by applying a FIXED list of operations to a FIXED
// set of values (fixed generator seeds) and reporting one digest per (operation, kind).
// The codec operations are pure functions of the value, so every worker process of a
// check - whatever happened earlier in that process, in either build flavour - must
// report the same digests.  State that is chosen once per process by whatever call
// happened to come first ("sticky" state) is identical in the concurrent, sequential
// and isolated worlds of one process and therefore invisible to O3/O4; it is visible
// here, because different batches have different histories.

import (
	"fmt"
	"sort"

	"github.com/pion/rtcp"
)

const (
	canarySeeds  = 10
	canaryNarrow = 8
)

func fnv(h uint64, s string) uint64 {
	for i := 0; i < len(s); i++ {
		h ^= uint64(s[i])
		h *= 0x100000001b3
	}
	return h
}

func canaryCall(f func() string) (out string) {
	defer func() {
		if v := recover(); v != nil {
			out = panicString(v)
		}
	}()
	return f()
}

// canaryDigests returns digest strings keyed "op/kind".
func canaryDigests() map[string]string {
	acc := map[string]uint64{}
	add := func(op string, kind int, s string) {
		k := op + "/" + kindNames[kind]
		h, ok := acc[k]
		if !ok {
			h = 0xcbf29ce484222325
		}
		acc[k] = fnv(h, s+"\x00")
	}
	for kind := 0; kind < numKinds; kind++ {
		for i := 0; i < canarySeeds+canaryNarrow; i++ {
			seed := uint64(0xC0FFEE00 + 977*kind + i)
			if i >= canarySeeds {
				// values over the same few sources and texts that the narrow runs of every batch use: whatever a
				// history leaves behind under those keys shows here
				seed |= narrowBit
			}
			p := genPacket(kind, seed)
			var enc []byte
			add("Marshal", kind, canaryCall(func() string {
				b, err := p.Marshal()
				enc = b
				return fmt.Sprintf("%x|%s", b, errString(err))
			}))
			add("MarshalSize", kind, canaryCall(func() string { return fmt.Sprint(p.MarshalSize()) }))
			add("DestinationSSRC", kind, canaryCall(func() string { return fmt.Sprint(p.DestinationSSRC()) }))
			if s, ok := p.(fmt.Stringer); ok {
				add("String", kind, canaryCall(func() string { return stripAddrs(normAddrs(s.String(), collectAddrs(p))) }))
			}
			if enc != nil {
				in := append([]byte(nil), enc...)
				add("rtcp.Unmarshal", kind, canaryCall(func() string {
					l, err := rtcp.Unmarshal(in)
					return dumpSem(l, false) + "|" + errString(err)
				}))
				q := newOfKind(dispatchKind(in))
				add("Unmarshal(typed)", kind, canaryCall(func() string {
					err := q.Unmarshal(in)
					return dumpSem(q, false) + "|" + errString(err)
				}))
				// second round trip: what was decoded encodes to the same bytes in every process
				add("re-Marshal", kind, canaryCall(func() string {
					b, err := q.Marshal()
					return fmt.Sprintf("%x|%s", b, errString(err))
				}))
			}
		}
	}
	out := map[string]string{}
	keys := make([]string, 0, len(acc))
	for k := range acc {
		keys = append(keys, k)
	}
	sort.Strings(keys)
	for _, k := range keys {
		out[k] = fmt.Sprintf("%016x", acc[k])
	}
	return out
}
