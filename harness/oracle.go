package main

// Oracles evaluated over the recorded histories after the join.  Everything
// here runs on the coordinator goroutine; fmt and friends are fine.

import (
	"bytes"
	"fmt"
	"reflect"
	"regexp"
	"strings"

	"github.com/pion/rtcp"
)

// addrRe matches what a Go heap or stack address looks like when printed with %p / %v on linux/amd64
// (0xc000… with ten hex digits).  A text that contains the address of the object it describes is still
// the same on every call on that object, which is all C18 asks for; the twin the oracles compare with
// lives at another address, so such tokens are neutralised before texts are compared.  (A red-team
// candidate - TransportLayerCC.String printing its element pointers - showed the need; DESIGN §10.)
var addrRe = regexp.MustCompile(`0xc[0-9a-f]{9}\b`)

func stripAddrs(s string) string {
	if !strings.Contains(s, "0xc") {
		return s
	}
	return addrRe.ReplaceAllString(s, "0xADDR")
}

// normAddrs replaces every spelling (hex with or without 0x, upper or lower case, decimal) of the given
// addresses by their position in the list, longest spelling first.
func normAddrs(s string, addrs []uintptr) string {
	if len(addrs) == 0 || len(s) < 6 {
		return s
	}
	seen := map[uintptr]bool{}
	for k, a := range addrs {
		if a == 0 || seen[a] {
			continue
		}
		seen[a] = true
		tag := fmt.Sprintf("PTR#%d", k)
		lo := fmt.Sprintf("%x", a)
		up := strings.ToUpper(lo)
		dec := fmt.Sprintf("%d", a)
		for _, sp := range []string{"0x" + lo, "0X" + up, "0x" + up, lo, up, dec} {
			if strings.Contains(s, sp) {
				s = strings.ReplaceAll(s, sp, tag)
			}
		}
	}
	return s
}

func errString(e error) string {
	if e == nil {
		return "<nil>"
	}
	return stripAddrs(fmt.Sprintf("%T:%s", e, e.Error()))
}

func panicString(v interface{}) string {
	if e, ok := v.(error); ok {
		return "panic:" + stripAddrs(e.Error())
	}
	return "panic:" + stripAddrs(fmt.Sprint(v))
}

// renderNormalised makes render replace the addresses reachable from the operation's object by their position
// in the traversal (expensive; used only to re-examine results that differ textually).
var renderNormalised bool

// sameResult reports whether two results are equal, first as rendered, then - if they differ - with each side's
// own object addresses neutralised in whatever spelling they were printed.
func sameResult(a, b *opResult) (bool, string, string) {
	ra, rb := render(a), render(b)
	if ra == rb {
		return true, ra, rb
	}
	if len(a.addrs) == 0 && len(b.addrs) == 0 {
		return false, ra, rb
	}
	renderNormalised = true
	na, nb := render(a), render(b)
	renderNormalised = false
	return na == nb, ra, rb
}

// render turns a raw result into its canonical text.
func render(r *opResult) string {
	if !r.done {
		return "<not executed>"
	}
	if r.skipped {
		return "<skipped>"
	}
	var sb strings.Builder
	for _, p := range r.parts {
		switch p.kind {
		case ptBytes:
			if p.nilS {
				sb.WriteString("bytes:nil;")
			} else {
				fmt.Fprintf(&sb, "bytes[%d]:%x;", len(p.bc), p.bc)
			}
		case ptU32:
			if p.nilS {
				sb.WriteString("u32:nil;")
			} else {
				fmt.Fprintf(&sb, "u32%v;", p.uc)
			}
		case ptInt:
			fmt.Fprintf(&sb, "int:%d;", p.n)
		case ptStr:
			if renderNormalised {
				fmt.Fprintf(&sb, "str:%q;", stripAddrs(normAddrs(p.s, r.addrs)))
			} else {
				fmt.Fprintf(&sb, "str:%q;", stripAddrs(p.s))
			}
		case ptErr:
			sb.WriteString("err:" + errString(p.err) + ";")
		case ptPanic:
			sb.WriteString(panicString(p.pan) + ";")
		case ptDump:
			sb.WriteString("val:" + p.s + ";")
		}
	}
	if r.outDump != "" {
		sb.WriteString("out:" + r.outDump + ";")
	}
	return sb.String()
}

func clip(s string, around int) string {
	const w = 300
	if len(s) <= 2*w {
		return s
	}
	lo := around - w
	if lo < 0 {
		lo = 0
	}
	hi := lo + 2*w
	if hi > len(s) {
		hi = len(s)
		lo = hi - 2*w
	}
	return fmt.Sprintf("…[%d:%d of %d] %s …", lo, hi, len(s), s[lo:hi])
}

func firstDiff(a, b string) int {
	n := len(a)
	if len(b) < n {
		n = len(b)
	}
	for i := 0; i < n; i++ {
		if a[i] != b[i] {
			return i
		}
	}
	return n
}

func kindName(s *RunSpec, w *world, op *Op) string {
	if op.K == opUnit {
		if op.N >= 0 && op.N < numUnits {
			return unitNames[op.N]
		}
		return "unit"
	}
	if op.A >= 0 && op.A < len(w.slots) {
		in := &w.slots[op.A]
		if in.def {
			switch {
			case in.isB:
				return "bytes"
			case in.isL:
				return "[]Packet"
			case in.pkt != nil:
				if k := kindOf(in.pkt); k >= 0 {
					return kindNames[k]
				}
			}
		}
	}
	return "-"
}

func mkViol(s *RunSpec, w *world, oracle, clause, worldName string, t, i int, exp, act, detail string) Violation {
	op := &s.Tasks[t][i]
	d := firstDiff(exp, act)
	return Violation{Oracle: oracle, Clause: clause, World: worldName, Task: t, OpIdx: i, Op: opNames[op.K], Kind: kindName(s, w, op),
		Verdict: opVerdict(op.K), Expected: clip(exp, d), Actual: clip(act, d), Detail: detail}
}

// checkModified reports O2 failures recorded by the executor.
func checkModified(s *RunSpec, w *world, res [][]opResult, worldName string, out []Violation) []Violation {
	for t := range res {
		for i := range res[t] {
			r := &res[t][i]
			if r.modified {
				out = append(out, mkViol(s, w, "O2", "a/b: operation modified its packet or input buffer", worldName, t, i, r.pre, r.post,
					"physical snapshot of the operation's input differs after the call (addresses, capacities and spare capacity included)"))
			}
			if r.incons {
				detail := "the same octets decoded from a fresh buffer (expected) and from a receive buffer that is refilled in place (actual), or into a fresh packet object (expected) and into one that was decoded into before (actual)"
				if s.Tasks[t][i].K == opUnmTyped {
					detail = "receiver reuse: the same octets decoded into a fresh packet object (expected) and into one that was decoded into before (actual); what the two objects encode to, list and print is compared"
				}
				if s.Tasks[t][i].K == opVolume {
					detail = "inside one volume operation: a result compared with the first result of the same call on the same value, or a decoded packet compared with itself as returned"
				}
				out = append(out, mkViol(s, w, "O4", "c: repeated calls return identical results regardless of what was called before", worldName, t, i, r.pre, r.post, detail))
			}
		}
	}
	return out
}

// checkRetained is O5: everything an operation returned must still equal the copy taken at return.
func checkRetained(s *RunSpec, w *world, res [][]opResult, worldName string, out []Violation) []Violation {
	dirty := map[uintptr]bool{}
	for _, d := range w.dirty {
		for _, p := range d {
			dirty[p] = true
		}
	}
	for t := range res {
		for i := range res[t] {
			r := &res[t][i]
			if !r.done || r.skipped {
				continue
			}
			if r.changedEarly {
				out = append(out, mkViol(s, w, "O5", "e: a returned value changed after it was returned", worldName, t, i, r.earlyExp, r.earlyAct,
					"returned value vs copy taken at return, compared just before the owner's next caller-side edit of the packet"))
			}
			for pi := range r.parts {
				p := &r.parts[pi]
				if p.released {
					continue
				}
				switch p.kind {
				case ptBytes:
					if p.b != nil && !bytes.Equal(p.b[:cap(p.b)], p.bc[:cap(p.bc)]) {
						out = append(out, mkViol(s, w, "O5", "e: a returned buffer changed after it was returned", worldName, t, i,
							fmt.Sprintf("%x", p.bc[:cap(p.bc)]), fmt.Sprintf("%x", p.b[:cap(p.b)]), "returned []byte (to capacity) vs copy taken at return"))
					}
				case ptU32:
					if p.u != nil && !reflect.DeepEqual(p.u, p.uc) {
						out = append(out, mkViol(s, w, "O5", "e: a returned slice changed after it was returned", worldName, t, i,
							fmt.Sprint(p.uc), fmt.Sprint(p.u), "returned []uint32 vs copy taken at return"))
					}
				}
			}
			if r.outPtr != nil || r.outList != nil {
				var cur, was string
				masked := false
				var ptrs []uintptr
				if r.outPtr != nil {
					ptrs = xrPointers(r.outPtr, nil)
				}
				for _, q := range r.outList {
					ptrs = xrPointers(q, ptrs)
				}
				for _, p := range ptrs {
					if dirty[p] {
						masked = true
					}
				}
				var obj interface{} = r.outPtr
				if r.outPtr == nil {
					obj = r.outList
				}
				if masked {
					cur, was = dumpSem(obj, true), r.outDumpM
				} else {
					cur, was = dumpSem(obj, false), r.outDump
				}
				if cur != was {
					out = append(out, mkViol(s, w, "O5", "e: a decoded packet changed after it was returned", worldName, t, i, was, cur,
						fmt.Sprintf("semantic dump at end of run vs at return (XR headers masked: %v)", masked)))
				}
			}
		}
	}
	// every byte buffer that ever sat in a slot (marshal outputs, corrupted copies, delivered datagrams)
	for si := range w.slots {
		sv := &w.slots[si]
		if sv.def && sv.isB && sv.b != nil && sv.bc != nil {
			if !bytes.Equal(sv.b[:cap(sv.b)], sv.bc[:cap(sv.bc)]) {
				v := Violation{Oracle: "O5", Clause: "b/e: a buffer changed after it was produced", World: worldName, Task: -1, OpIdx: si,
					Op: "buffer", Kind: "bytes", Verdict: true,
					Expected: clip(fmt.Sprintf("%x", sv.bc[:cap(sv.bc)]), 0), Actual: clip(fmt.Sprintf("%x", sv.b[:cap(sv.b)]), 0),
					Detail: fmt.Sprintf("slot %d", si)}
				out = append(out, v)
			}
		}
	}
	return out
}

// checkAgainstReference is O3/O4/O6: every concurrent result must equal the
// isolated (history-free, fresh-address) result, and so must the sequential
// same-history result.
func checkAgainstReference(s *RunSpec, conc, ref *world, out []Violation) []Violation {
	for t := range s.Tasks {
		for i := range s.Tasks[t] {
			op := &s.Tasks[t][i]
			rs, ri := &ref.res[t][i], &ref.iso[t][i]
			ss, si := render(rs), render(ri)
			var sc string
			var rc *opResult
			if conc != nil {
				rc = &conc.res[t][i]
				sc = render(rc)
			}
			if !opLibrary(op.K) {
				if conc != nil && sc != ss {
					out = append(out, mkViol(s, ref, "O3", "e: harness operation outcome differs between concurrent and sequential execution", "concurrent", t, i, ss, sc,
						"a non-library step (pick/send/recv/mutate/corrupt) was skipped in one world only: control flow diverged"))
				}
				continue
			}
			seqIso, _, _ := sameResult(rs, ri)
			if !seqIso {
				out = append(out, mkViol(s, ref, "O4", "c: result depends on what was called before", "sequential", t, i, si, ss,
					"same operation on a history-free twin at a fresh address (expected) vs on the object with its sequential history (actual)"))
			}
			if conc != nil {
				concIso, _, _ := sameResult(rc, ri)
				if !concIso {
					concSeq, _, _ := sameResult(rc, rs)
					if seqIso {
						out = append(out, mkViol(s, ref, "O3", "e: concurrent result differs from sequential result", "concurrent", t, i, si, sc,
							"isolated sequential reference (expected) vs result under the simulated schedule (actual)"))
					} else if !concSeq {
						out = append(out, mkViol(s, ref, "O3", "c/e: concurrent result differs from both references", "concurrent", t, i, si, sc,
							"isolated reference (expected) vs result under the simulated schedule (actual); the sequential same-history result differs too"))
					}
				}
			}
			// Block headers after an XR-reaching Marshal are compared only when the Marshal succeeded in
			// both worlds: a Marshal that fails before it reaches an ExtendedReport (compound grammar,
			// an earlier member that cannot be encoded) leaves that report's headers as they were, and
			// "as they were" legitimately differs between an object with a history and its twin.
			okBoth := func(a, b *opResult) bool { return !hasFailure(a) && !hasFailure(b) }
			if conc != nil && okBoth(&conc.res[t][i], ri) {
				cp := conc.res[t][i].postSem
				if cp != ri.postSem && !conc.res[t][i].skipped && !ri.skipped {
					out = append(out, mkViol(s, ref, "O2", "a: XR block headers after Marshal differ from the reference", "concurrent", t, i, ri.postSem, cp,
						"semantic dump of the packet after an XR-reaching Marshal (headers must equal those the reference computes)"))
				}
			}
			if okBoth(rs, ri) && rs.postSem != ri.postSem && !rs.skipped && !ri.skipped {
				out = append(out, mkViol(s, ref, "O6", "c: XR block headers after Marshal depend on history", "sequential", t, i, ri.postSem, rs.postSem,
					"semantic dump of the packet after an XR-reaching Marshal"))
			}
		}
	}
	return out
}

// hasFailure reports whether an operation returned an error or panicked.
func hasFailure(r *opResult) bool {
	for i := range r.parts {
		if (r.parts[i].kind == ptErr && r.parts[i].err != nil) || r.parts[i].kind == ptPanic {
			return true
		}
	}
	return false
}

// checkRefAgreement compares two reference passes (before and after the concurrent phase).
func checkRefAgreement(s *RunSpec, a, b *world, out []Violation) []Violation {
	for t := range s.Tasks {
		for i := range s.Tasks[t] {
			if !opLibrary(s.Tasks[t][i].K) {
				continue
			}
			same, x, y := sameResult(&a.iso[t][i], &b.iso[t][i])
			if !same {
				out = append(out, mkViol(s, b, "O3", "c: reference result changed across the concurrent phase (state survived the run)", "pre-vs-post", t, i, x, y,
					"isolated reference computed before (expected) and after (actual) the concurrent phase"))
			}
		}
	}
	return out
}

// resultDigest folds every rendered result of a world into a hash (event log for the determinism self-test).
func resultDigest(w *world, res [][]opResult) uint64 {
	// addresses reachable from an operation's own object are replaced by their position: the digest is compared
	// between worker processes (selftest, O8)
	renderNormalised = true
	defer func() { renderNormalised = false }()
	h := uint64(0xcbf29ce484222325)
	for t := range res {
		for i := range res[t] {
			s := render(&res[t][i])
			for j := 0; j < len(s); j++ {
				h ^= uint64(s[j])
				h *= 0x100000001b3
			}
			h ^= uint64(t*131 + i)
			h *= 0x100000001b3
		}
	}
	return h
}

var _ rtcp.Packet

// ---- cross-run retention (O5 over the whole batch) --------------------------------------------
//
// A sample of the values returned in every run is kept for the life of the worker process and
// re-checked after every later run: a buffer recycled only after many further calls, or by a
// later run, still has to stay as it was returned.

type stashEntry struct {
	run, task, op int
	opName, kind  string
	b, bc         []byte
	s, sc         string
	isStr         bool
	pkt           interface{} // a decoded packet or packet list, kept as returned
	pktDump       string      // its semantic dump at return (XR headers masked)
}

var stash []stashEntry

const stashPerRun = 48
const stashMax = 6000

func stashFrom(s *RunSpec, w *world, runIdx int) {
	r := &rng{s: s.Seed ^ 0x57a5}
	type cand struct{ t, i, p int }
	var cands []cand
	for t := range w.res {
		for i := range w.res[t] {
			res := &w.res[t][i]
			if !res.done || res.skipped {
				continue
			}
			for pi := range res.parts {
				p := &res.parts[pi]
				if p.released {
					continue
				}
				if (p.kind == ptBytes && p.b != nil && len(p.b) > 0) || (p.kind == ptStr && len(p.s) > 0) {
					cands = append(cands, cand{t, i, pi})
				}
			}
		}
	}
	// a few decoded packets as well: what a decoder returned must not change when later datagrams are decoded
	npk := 0
	for t := range w.res {
		for i := range w.res[t] {
			res := &w.res[t][i]
			if npk >= 6 || len(stash) >= stashMax || !res.done || res.skipped || (res.outPtr == nil && res.outList == nil) {
				continue
			}
			if r.chance(4) {
				continue
			}
			op := &s.Tasks[t][i]
			var obj interface{} = res.outPtr
			if res.outPtr == nil {
				obj = res.outList
			}
			stash = append(stash, stashEntry{run: runIdx, task: t, op: i, opName: opNames[op.K], kind: kindName(s, w, op), pkt: obj, pktDump: res.outDumpM})
			npk++
		}
	}
	for n := 0; n < stashPerRun && len(cands) > 0 && len(stash) < stashMax; n++ {
		j := r.intn(len(cands))
		c := cands[j]
		cands[j] = cands[len(cands)-1]
		cands = cands[:len(cands)-1]
		op := &s.Tasks[c.t][c.i]
		p := &w.res[c.t][c.i].parts[c.p]
		e := stashEntry{run: runIdx, task: c.t, op: c.i, opName: opNames[op.K], kind: kindName(s, w, op)}
		if p.kind == ptBytes {
			// baseline = the value as it is at the end of its run (in-run changes were judged by the in-run check)
			e.b, e.bc = p.b, copyBytesPhys(p.b)
		} else {
			e.isStr = true
			e.s = p.s
			e.sc = string(append([]byte(nil), p.s...))
		}
		stash = append(stash, e)
	}
}

func checkStash(curRun int) []Violation {
	var out []Violation
	for i := range stash {
		e := &stash[i]
		bad := false
		var exp, act string
		if e.pkt != nil {
			if cur := dumpSem(e.pkt, true); cur != e.pktDump {
				bad, exp, act = true, e.pktDump, cur
			}
		} else if e.isStr {
			if e.s != e.sc {
				bad, exp, act = true, fmt.Sprintf("%q", e.sc), fmt.Sprintf("%q", e.s)
			}
		} else if !bytes.Equal(e.b[:cap(e.b)], e.bc[:cap(e.bc)]) {
			bad, exp, act = true, fmt.Sprintf("%x", e.bc[:cap(e.bc)]), fmt.Sprintf("%x", e.b[:cap(e.b)])
		}
		if bad {
			d := firstDiff(exp, act)
			out = append(out, Violation{Oracle: "O5", Clause: "e: a returned value changed long after it was returned", World: "concurrent",
				Task: e.task, OpIdx: e.op, Op: e.opName, Kind: e.kind, Verdict: true, Expected: clip(exp, d), Actual: clip(act, d),
				Detail: fmt.Sprintf("value returned in run %d of this worker process (task %d, entry %d); found changed after run %d", e.run, e.task, e.op, curRun)})
			// report once
			if e.pkt != nil {
				e.pktDump = dumpSem(e.pkt, true)
			} else if e.isStr {
				e.sc = e.s
			} else {
				e.bc = copyBytesPhys(e.b)
			}
		}
	}
	return out
}
