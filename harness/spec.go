package main

import hook "github.com/pion/rtcp/zz_simhook"

// Run specifications: explicit, JSON-serialisable straight-line programs.
//
// A run is a Kahn process network: every task executes a fixed list of
// operations; tasks communicate only through statically addressed message
// positions (channel = receiving task, idx = position), each written by
// exactly one send and read by at most one recv.  Consequently the value every
// operation sees is independent of the schedule *provided the code under test
// is pure* — which is the property being checked.  Programs are generated in a
// global causal order (a send is always generated before its recv), so the
// generation order itself is a deadlock-free witness schedule.

const (
	opNone uint8 = iota
	// verdict-bearing operations (named in the property)
	opMarshal      // A pkt -> B bytes            (issued only where it cannot race by documented design)
	opMarshalSafe  // like opMarshal but skipped at run time if the packet reaches an ExtendedReport (object is shared)
	opSize         // MarshalSize
	opDSSRC        // DestinationSSRC
	opString       // String()
	opFmtV         // fmt %v
	opFmtPV        // fmt %+v
	opUnmTyped     // A bytes -> B pkt, typed decoder into a fresh receiver; N = kind, or -1 = dispatch on header like rtcp.Unmarshal
	opUnmAll       // A bytes -> B list, rtcp.Unmarshal
	opUnmCompound  // A bytes -> B pkt, (*CompoundPacket).Unmarshal
	opMarshalList  // A list -> B bytes, rtcp.Marshal
	opMarshalListS // safe variant
	opUnit         // N = unit kind; self-contained Marshal/Unmarshal of an exported sub-structure built from Seed
	// load operations (not named in the property; run for company, judged as probes)
	opHeader   // Header()
	opLen      // Len()
	opValidate // CompoundPacket.Validate
	opCNAME    // CompoundPacket.CNAME
	opMarshalTo
	opNack       // NackPairsFromSequenceNumbers / PacketList / Range from Seed
	opBlockDSSRC // DestinationSSRC of every XR block
	// harness operations
	opPick    // A list, N index -> B pkt (no library call)
	opSend    // A -> (Ch, Idx), N = delay in steps
	opRecv    // (Ch, Idx) -> B
	opMutate  // caller-side overwrite of exported fields of A from a fresh value built from Seed
	opCorrupt // A bytes -> B bytes: copy, then truncate / flip / splice per Seed
	opVolume  // A pkt: N calls in a row, alternating between the packet and a near twin of it; every result must equal the first of its kind
	numOps
)

func opVerdict(k uint8) bool { return (k >= opMarshal && k <= opUnit) || k == opVolume }
func opLibrary(k uint8) bool { return (k >= opMarshal && k <= opBlockDSSRC) || k == opVolume }

type inboxEntry struct {
	idx   int
	bytes bool
	hop   int
	delay int
}

type specGen struct {
	r      *rng
	s      *RunSpec
	n      int
	inbox  [][]inboxEntry
	nextIx []int
	shared []int // slots of objects shared from the start
	tier   string
	narrow bool
	maxOps int
	noFmt  bool // no String/%v operations in this run
	noXR   bool // no XR objects in this run
	// generator kind of the object in a slot, where known statically (-1 otherwise)
	slotKind []int
	// seeds of the objects generated so far, per kind (source of near twins)
	seedsByKind map[int][]uint64
}

func (g *specGen) newSlot() int {
	s := g.s.NSlots
	g.s.NSlots++
	g.slotKind = append(g.slotKind, -1)
	return s
}

func (g *specGen) newObj(kind int, list bool, shared bool) int {
	if g.noXR && kind == kXR {
		kind = kSR
	}
	seed := g.r.u64()
	if !list {
		if prev := g.seedsByKind[kind]; len(prev) > 0 && g.r.chance(3) {
			// near twin of an object this run already has: same seed, one leaf changed
			slot := g.newObjSeed(kind, prev[g.r.intn(len(prev))], false, shared)
			o := &g.s.Objects[len(g.s.Objects)-1]
			o.Tweaks = append(o.Tweaks, g.r.u64())
			return slot
		}
		if g.seedsByKind == nil {
			g.seedsByKind = map[int][]uint64{}
		}
		g.seedsByKind[kind] = append(g.seedsByKind[kind], seed)
	}
	return g.newObjSeed(kind, seed, list, shared)
}

func (g *specGen) newObjSeed(kind int, seed uint64, list bool, shared bool) int {
	if g.noXR && kind == kXR {
		kind = kSR
	}
	slot := g.newSlot()
	if !list {
		g.slotKind[slot] = kind
	}
	g.s.Objects = append(g.s.Objects, ObjSpec{Slot: slot, Kind: kind, Seed: g.seedFor(seed), List: list, Shared: shared})
	return slot
}

// seedFor marks a value seed as narrow or not, after the run's choice (see rng.narrow).
func (g *specGen) seedFor(seed uint64) uint64 {
	if g.narrow {
		return seed | narrowBit
	}
	return seed &^ narrowBit
}

func (g *specGen) emit(t int, op Op) {
	if op.K == opMutate || op.K == opUnit {
		op.Seed = g.seedFor(op.Seed)
	}
	g.s.Tasks[t] = append(g.s.Tasks[t], op)
}

func (g *specGen) full(t int) bool { return len(g.s.Tasks[t]) >= g.maxOps }

// pickHot returns one of the set bits of mask (below n), or -1.
func pickHot(r *rng, mask uint64, n int) int {
	var c [64]int
	m := 0
	for i := 0; i < n && i < 64; i++ {
		if mask&(1<<uint(i)) != 0 {
			c[m] = i
			m++
		}
	}
	if m == 0 {
		return -1
	}
	return c[r.intn(m)]
}

func (g *specGen) pickUnit() int {
	if hotUnits != 0 && g.r.chance(2) {
		if u := pickHot(g.r, hotUnits, numUnits); u >= 0 {
			return u
		}
	}
	return g.r.intn(numUnits)
}

func (g *specGen) pickKind() int {
	k := g.r.intn(numKinds)
	if hotKinds != 0 && g.r.chance(2) {
		// the calibration pass found kinds that reach statements touching shared state: half of the objects are of those kinds
		if h := pickHot(g.r, hotKinds, numKinds); h >= 0 {
			k = h
		}
	}
	if g.noXR && (k == kXR || k == kCompound) {
		k = g.r.intn(kXR)
	}
	return k
}

// opApplies reports whether operation k is offered by packets of the given generator kind (-1 = unknown).
func opApplies(k uint8, kind int) bool {
	if kind < 0 {
		return true
	}
	switch k {
	case opHeader:
		switch kind {
		case kAPP, kTWCC, kXR, kCompound:
			return false
		}
	case opLen:
		return kind == kCCFB || kind == kTWCC
	case opValidate, opCNAME:
		return kind == kCompound
	case opBlockDSSRC:
		return kind == kXR
	case opMarshalTo:
		return kind == kREMB
	case opString:
		return kind != kAPP
	}
	return true
}

// readOnlyOps appends n read-only operations on packet slot a (kind = generator kind if known, else -1).
func (g *specGen) readOnlyOps(t int, a int, n int, shared bool) {
	kind := -1
	if a >= 0 && a < len(g.slotKind) {
		kind = g.slotKind[a]
	}
	for i := 0; i < n; i++ {
		var k uint8
		for try := 0; try < 6; try++ {
			switch x := g.r.intn(16); {
			case x < 3:
				k = opSize
			case x < 5:
				k = opDSSRC
			case x < 7:
				k = opString
			case x == 7:
				k = opFmtV
			case x == 8:
				k = opFmtPV
			case x == 9:
				k = opHeader
			case x == 10:
				k = opLen
			case x == 11:
				k = opValidate
			case x == 12:
				k = opCNAME
			case x == 13:
				k = opBlockDSSRC
			case x == 14:
				k = opMarshalTo
			default:
				k = opMarshalSafe
				if !shared {
					k = opMarshal
				}
			}
			if opApplies(k, kind) && (kind >= 0 || try > 0 || k < opHeader || g.r.chance(3)) {
				break
			}
		}
		if g.noFmt && (k == opString || k == opFmtV || k == opFmtPV) {
			k = opSize
		}
		b := -1
		if k == opMarshal || k == opMarshalSafe {
			b = g.newSlot()
		}
		g.emit(t, Op{K: k, A: a, B: b})
	}
}

// decodeOps appends decode operations on bytes slot a in task t and returns the packet slots produced.
// One time in five the bytes are first re-framed with RFC-valid padding (private copy).
func (g *specGen) decodeOps(t int, a int) []int {
	var out []int
	if g.r.chance(5) {
		c := g.newSlot()
		g.emit(t, Op{K: opCorrupt, A: a, B: c, N: 1, Seed: g.r.u64()})
		g.s.Plan.Repad++
		a = c
	}
	switch g.r.intn(6) {
	case 0, 1, 2:
		l := g.newSlot()
		g.emit(t, Op{K: opUnmAll, A: a, B: l})
		np := 1 + g.r.intn(3)
		for i := 0; i < np; i++ {
			p := g.newSlot()
			g.emit(t, Op{K: opPick, A: l, B: p, N: i})
			out = append(out, p)
		}
		if g.r.chance(3) {
			b := g.newSlot()
			g.emit(t, Op{K: opMarshalListS, A: l, B: b, N: g.r.intn(6)})
		}
	case 3:
		p := g.newSlot()
		g.emit(t, Op{K: opUnmCompound, A: a, B: p})
		out = append(out, p)
	case 4:
		p := g.newSlot()
		g.emit(t, Op{K: opUnmTyped, A: a, B: p, N: -1})
		out = append(out, p)
	case 5:
		p := g.newSlot()
		g.emit(t, Op{K: opUnmTyped, A: a, B: p, N: g.r.intn(numKinds)}) // possibly a foreign type: must reject identically
		out = append(out, p)
	}
	return out
}

func (g *specGen) send(from int, slot int, to int, bytes bool, hop int) {
	if g.nextIx[to] >= maxMsgs {
		return
	}
	idx := g.nextIx[to]
	g.nextIx[to]++
	delay := 0
	if g.r.chance(3) {
		delay = 1 + g.r.intn(400)
		g.s.Plan.Delay++
	}
	g.emit(from, Op{K: opSend, A: slot, Ch: to, Idx: idx, N: delay})
	g.inbox[to] = append(g.inbox[to], inboxEntry{idx: idx, bytes: bytes, hop: hop})
}

func (g *specGen) otherTask(t int) int {
	if g.n == 1 {
		return t
	}
	o := g.r.intn(g.n - 1)
	if o >= t {
		o++
	}
	return o
}

// flow: a producer builds a value, encodes it and hands the datagram to the transport.
func (g *specGen) flow(p int) {
	if g.full(p) {
		return
	}
	var b int
	if g.r.chance(6) {
		o := g.newObj(0, true, false)
		b = g.newSlot()
		g.emit(p, Op{K: opMarshalList, A: o, B: b, N: g.r.intn(6)})
	} else {
		var o int
		if len(g.shared) > 0 && g.r.chance(4) {
			o = g.shared[g.r.intn(len(g.shared))]
			g.readOnlyOps(p, o, g.r.intn(3), true)
			b = g.newSlot()
			g.emit(p, Op{K: opMarshalSafe, A: o, B: b})
		} else {
			k := g.pickKind()
			if g.r.chance(3) {
				k = kCompound
				if g.noXR {
					k = kSR
				}
			}
			o = g.newObj(k, false, false)
			g.readOnlyOps(p, o, g.r.intn(3), false)
			b = g.newSlot()
			g.emit(p, Op{K: opMarshal, A: o, B: b})
			if g.r.chance(4) {
				g.readOnlyOps(p, o, 1+g.r.intn(2), false)
			}
		}
	}
	// transport decision
	switch x := g.r.intn(16); {
	case x == 0:
		g.s.Plan.Drop++ // dropped: nothing is sent
	case x < 4:
		// duplicate: the same backing array to two receivers, or twice to one
		g.s.Plan.Dup++
		r1 := g.otherTask(p)
		r2 := g.otherTask(p)
		g.send(p, b, r1, true, 0)
		g.send(p, b, r2, true, 0)
		if g.r.chance(2) {
			// the producer decodes its own datagram as well while it is in flight
			g.decodeOps(p, b)
		}
	case x < 6:
		// malformed input: corrupt a pre-delivery copy
		g.s.Plan.Corrupt++
		c := g.newSlot()
		g.emit(p, Op{K: opCorrupt, A: b, B: c, Seed: g.r.u64()})
		g.send(p, c, g.otherTask(p), true, 0)
	case x < 9:
		// re-framed in flight: a copy with RFC-valid padding added to one packet (sometimes delivered twice)
		g.s.Plan.Repad++
		c := g.newSlot()
		g.emit(p, Op{K: opCorrupt, A: b, B: c, N: 1, Seed: g.r.u64()})
		g.send(p, c, g.otherTask(p), true, 0)
		if g.r.chance(3) {
			g.send(p, c, g.otherTask(p), true, 0)
		}
	default:
		g.send(p, b, g.otherTask(p), true, 0)
	}
}

// deliver lets task t consume (some of) its inbox.
func (g *specGen) deliver(t int, all bool) {
	in := g.inbox[t]
	if len(in) == 0 {
		return
	}
	n := len(in)
	if !all {
		n = 1 + g.r.intn(len(in))
	}
	batch := append([]inboxEntry(nil), in[:n]...)
	g.inbox[t] = append([]inboxEntry(nil), in[n:]...)
	if len(batch) > 1 && g.r.chance(2) {
		// reorder: ask for later positions first
		g.s.Plan.Reorder++
		for i := len(batch) - 1; i > 0; i-- {
			j := g.r.intn(i + 1)
			batch[i], batch[j] = batch[j], batch[i]
		}
	}
	for _, e := range batch {
		s := g.newSlot()
		g.emit(t, Op{K: opRecv, Ch: t, Idx: e.idx, B: s})
		if e.bytes {
			pk := g.decodeOps(t, s)
			for _, p := range pk {
				g.readOnlyOps(t, p, g.r.intn(3), false)
				// fan the decoded packet out by pointer
				if g.n > 1 && !g.full(t) {
					fan := 1 + g.r.intn(3)
					if g.r.chance(5) {
						fan = g.n - 1
						g.s.Plan.Burst++
					}
					for i := 0; i < fan; i++ {
						g.send(t, p, g.otherTask(t), false, e.hop)
					}
					g.readOnlyOps(t, p, g.r.intn(3), true)
				}
			}
		} else {
			// consumer of a shared decoded packet
			g.readOnlyOps(t, s, 1+g.r.intn(4), true)
			if e.hop < 1 && g.r.chance(3) && !g.full(t) {
				b := g.newSlot()
				g.emit(t, Op{K: opMarshalSafe, A: s, B: b})
				g.send(t, b, g.otherTask(t), true, e.hop+1)
			}
		}
	}
}

// history appends a private-history fragment to task t.
func (g *specGen) history(t int) {
	if g.full(t) {
		return
	}
	switch g.r.intn(8) {
	case 0:
		g.emit(t, Op{K: opUnit, A: -1, B: -1, N: g.pickUnit(), Seed: g.r.u64()})
	case 1:
		g.emit(t, Op{K: opNack, A: -1, B: -1, Seed: g.r.u64()})
	default:
		k := g.pickKind()
		if g.r.chance(3) && !g.noXR {
			k = kXR
		}
		o := g.newObj(k, false, false)
		if g.r.chance(4) {
			// near-twin history: encode, then repeatedly change exactly one leaf and encode again
			// (a memo keyed by a fingerprint, by identity or by length collides only with near twins)
			b0 := g.newSlot()
			g.emit(t, Op{K: opMarshal, A: o, B: b0})
			decodeToo := g.r.chance(2) // the decoders meet the near twins as well, one after the other
			if decodeToo {
				g.decodeOps(t, b0)
			}
			for i, k := 0, 2+g.r.intn(5); i < k; i++ {
				g.emit(t, Op{K: opMutate, A: o, B: -1, N: 1, Seed: g.r.u64()})
				g.s.Plan.BadValue++
				bi := g.newSlot()
				g.emit(t, Op{K: opMarshal, A: o, B: bi})
				if g.r.chance(2) {
					g.readOnlyOps(t, o, 1, false)
				}
				if decodeToo || g.r.chance(3) {
					g.decodeOps(t, bi)
				}
			}
			return
		}
		n := 1 + g.r.intn(8)
		for i := 0; i < n; i++ {
			switch g.r.intn(6) {
			case 0:
				g.emit(t, Op{K: opMutate, A: o, B: -1, N: g.r.intn(2), Seed: g.r.u64()}) // N=1: single-leaf tweak
				g.s.Plan.BadValue++
			case 1:
				b := g.newSlot()
				g.emit(t, Op{K: opMarshal, A: o, B: b})
				if g.r.chance(2) {
					g.decodeOps(t, b)
				}
			default:
				g.readOnlyOps(t, o, 1, false)
			}
		}
	}
}

// sharedOps appends read-only operations on an object shared from the start.
func (g *specGen) sharedOps(t int) {
	if len(g.shared) == 0 || g.full(t) {
		return
	}
	o := g.shared[g.r.intn(len(g.shared))]
	g.readOnlyOps(t, o, 1+g.r.intn(3), true)
}

func genSchedConfig(r *rng, n int, estLen uint64, opOnly bool, tier string) SchedConfig {
	c := SchedConfig{Seed: r.u64(), First: r.intn(n)}
	c.Strat = r.intn(numStrats)
	hotStall := false
	if treeHot > 0 && !opOnly && r.chance(4) {
		// the tree has statements that touch shared state: a quarter of the runs go to the strategy that holds
		// a task in front of such a statement while everybody else carries on
		c.Strat, hotStall = stratStall, true
	}
	switch x := r.intn(10); {
	case x < 6:
		c.Gran = granStmt
	case x < 8:
		c.Gran = granFunc
	default:
		c.Gran = granOp
	}
	if opOnly {
		c.Gran = granOp
	}
	if c.Gran == granOp {
		estLen = estLen / 100
		if estLen < 8 {
			estLen = 8
		}
	} else if c.Gran == granFunc {
		estLen = estLen / 8
	}
	c.EstLen = estLen
	ps := []uint64{4, 8, 16, 32, 64, 128, 256, 1024}
	c.P = ps[r.intn(len(ps))]
	if c.Gran == granOp {
		c.P = ps[r.intn(3)] / 2
	}
	qs := []uint32{1, 2, 7, 50}
	c.Q = qs[r.intn(len(qs))]
	switch c.Strat {
	case stratPCT:
		c.Depth = 1 + r.intn(3)
		perm := r.permN(n)
		for i := 0; i < n; i++ {
			c.Prio = append(c.Prio, int32(perm[i]+1))
		}
		for i := 0; i < c.Depth; i++ {
			c.CP = append(c.CP, 1+r.u64()%estLen)
		}
	case stratStall:
		c.StallT = r.intn(n)
		c.StallAt = uint32(1 + r.u64()%(estLen/uint64(n)+1))
		c.StallK = int32(1 + r.intn(6))
		// half of the stall runs freeze the task between two statements that publish shared state (the window in
		// which everybody else sees the first half of an update), up to three times
		c.StallHot = treeHot > 0 && !opOnly && (hotStall || r.chance(2))
		if c.StallHot {
			c.StallMax = 1 + r.intn(4)
			c.StallAt = uint32(r.u64() % (estLen/2 + 1)) // a global step count here
			if c.Gran == granOp {
				c.Gran = granStmt
			}
		}
	}
	if r.chance(6) {
		c.GCRate = uint64(200 + r.intn(3000))
	}
	if hook.PoolSites > 0 && r.chance(2) {
		// the tree uses sync.Pool: half of the runs see it miss and drop (what other processors' caches and
		// collections do to it in production)
		c.PoolRate = []uint32{2, 4, 16}[r.intn(3)]
	}
	if hook.ClockSites > 0 && r.chance(2) {
		// the tree reads the clock: half of the runs see it jump (clock-jump fault), the others see it creep
		c.ClockRate = []uint32{20, 200, 2000, 20000}[r.intn(4)]
	}
	c.StepCap = 300000
	return c
}

func (r *rng) permN(n int) []int {
	p := make([]int, n)
	for i := range p {
		p[i] = i
	}
	for i := n - 1; i > 0; i-- {
		j := r.intn(i + 1)
		p[i], p[j] = p[j], p[i]
	}
	return p
}

// genSpec builds the run specification for a seed.
func genSpec(seed uint64, cold bool, opOnly bool, tier string) *RunSpec {
	r := &rng{s: seed}
	s := &RunSpec{Seed: seed, Cold: cold}
	n := 2 + r.intn(7)
	if tier == "thorough" && r.chance(3) {
		n = 6 + r.intn(3)
	}
	s.Tasks = make([][]Op, n)
	g := &specGen{r: r, s: s, n: n, inbox: make([][]inboxEntry, n), nextIx: make([]int, n), tier: tier}
	g.maxOps = 12 + r.intn(36)
	if tier == "thorough" && r.chance(3) {
		g.maxOps = 40 + r.intn(60) // long histories
	}
	g.narrow = r.chance(3) // swarm style: in a third of the runs every value names the same few sources and texts
	g.noFmt = r.chance(3)
	g.noXR = r.chance(4)
	symmetric := cold || r.chance(5)
	if !symmetric && hotKinds|hotUnits != 0 && r.chance(4) {
		symmetric = true // the same code in every task at the same time: what shared state is most sensitive to
	}
	s.PreRef = !cold && r.chance(2)
	soak := !cold && r.chance(12)

	volume := !cold && !soak && r.chance(volumeOdds(tier))
	if volume {
		// quantity: tens of thousands of calls in a row on one or two tiny values per task (a million in some
		// thorough runs), operation-granular; what matters here is how many calls the process has seen
		s.Mode = "volume"
		n = 2 + r.intn(2)
		s.Tasks = make([][]Op, n)
		g.n = n
		g.inbox = make([][]inboxEntry, n)
		g.nextIx = make([]int, n)
		g.maxOps = 64
		total := 70000 + r.intn(70000)
		if tier == "thorough" && r.chance(4) {
			total = 1100000 + r.intn(200000)
		}
		k1 := g.pickKind()
		if k1 == kCompound || k1 == kXR {
			k1 = r.intn(kXR)
		}
		tiny := func(kind int) uint64 {
			for try := 0; ; try++ {
				sd := g.seedFor(r.u64())
				if try >= 40 || len(dumpSem(genPacket(kind, sd), false)) < 1500 {
					return sd
				}
			}
		}
		for t := 0; t < n; t++ {
			kind := k1
			if t > 0 && r.chance(3) {
				kind = g.pickKind()
				if kind == kCompound || kind == kXR {
					kind = k1
				}
			}
			o := g.newObjSeed(kind, tiny(kind), false, false)
			b0 := g.newSlot()
			g.emit(t, Op{K: opMarshal, A: o, B: b0})
			g.emit(t, Op{K: opVolume, A: o, B: -1, N: total / n, Seed: r.u64()})
			b1 := g.newSlot()
			g.emit(t, Op{K: opMarshal, A: o, B: b1})
			g.decodeOps(t, b1)
			g.readOnlyOps(t, o, 2, false)
		}
	} else if soak {
		// long call histories: few objects of one or two kinds, hundreds of calls of the same operations,
		// every result retained (a recycled buffer, a wrapped counter or a full cache shows only late)
		s.Mode = "soak"
		if n > 4 {
			n = 2 + r.intn(3)
			s.Tasks = make([][]Op, n)
			g.n = n
			g.inbox = make([][]inboxEntry, n)
			g.nextIx = make([]int, n)
		}
		calls := 120 + r.intn(280)
		if tier == "thorough" {
			calls = 300 + r.intn(1500)
		}
		g.maxOps = calls + 50
		k1, k2 := g.pickKind(), g.pickKind()
		if r.chance(2) {
			k2 = k1
		}
		if k1 == kCompound || k1 == kXR {
			k1 = r.intn(kXR)
		}
		// soak objects are called hundreds of times: keep them small (no rtcp code runs here, only struct literals)
		smallSeed := func(kind int) uint64 {
			for try := 0; ; try++ {
				sd := g.seedFor(r.u64())
				if try >= 20 || len(dumpSem(genPacket(kind, sd), false)) < 6000 {
					return sd
				}
			}
		}
		shared := g.newObjSeed(k1, smallSeed(k1), false, true)
		seedA, seedB := smallSeed(k1), smallSeed(k2)
		for t := 0; t < n; t++ {
			a := g.newObjSeed(k1, seedA, false, false)
			b := g.newObjSeed(k2, seedB, false, false)
			if t%2 == 1 {
				a = g.newObjSeed(k1, smallSeed(k1), false, false) // a different value of the same kind
			}
			var lastBytes int = -1
			for c := 0; c < calls; c++ {
				o := a
				if r.chance(4) {
					o = b
				}
				switch x := r.intn(16); {
				case x < 8:
					bs := g.newSlot()
					g.emit(t, Op{K: opMarshal, A: o, B: bs})
					lastBytes = bs
				case x < 10:
					g.emit(t, Op{K: opDSSRC, A: o, B: -1})
				case x < 11:
					g.emit(t, Op{K: opSize, A: o, B: -1})
				case x < 12:
					if !g.noFmt {
						g.emit(t, Op{K: opString, A: o, B: -1})
					} else {
						g.emit(t, Op{K: opSize, A: o, B: -1})
					}
				case x < 14:
					bs := g.newSlot()
					g.emit(t, Op{K: opMarshalSafe, A: shared, B: bs})
				case x < 15:
					if lastBytes >= 0 {
						p := g.newSlot()
						g.emit(t, Op{K: opUnmTyped, A: lastBytes, B: p, N: -1})
					}
				default:
					if r.chance(2) {
						g.emit(t, Op{K: opMutate, A: o, B: -1, N: 1 - r.intn(4)/3, Seed: r.u64()}) // mostly single-leaf tweaks
					} else {
						g.emit(t, Op{K: opDSSRC, A: shared, B: -1})
					}
				}
			}
		}
	} else if symmetric {
		s.Mode = "symmetric"
		// shared objects + per-task equal-valued private objects; every task runs the same list
		ns := 1 + r.intn(4)
		type tmpl struct {
			kind int
			seed uint64
		}
		var sharedSlots []int
		for i := 0; i < ns; i++ {
			sharedSlots = append(sharedSlots, g.newObj(g.pickKind(), false, true))
		}
		np := 1 + r.intn(3)
		var privT []tmpl
		for i := 0; i < np; i++ {
			privT = append(privT, tmpl{g.pickKind(), r.u64()})
		}
		// Either every task holds an equal-valued copy (the same code runs on the same data at the same time), or
		// every task holds a different value of the same kind (the same code on different data at the same time:
		// what makes entries of a table shared behind the scenes collide).
		siblings := r.chance(2)
		priv := make([][]int, n)
		for t := 0; t < n; t++ {
			for _, pt := range privT {
				sd := pt.seed
				if siblings && t > 0 {
					sd = (pt.seed ^ uint64(t)*0x9E3779B97F4A7C15) * 0xBF58476D1CE4E5B9
				}
				priv[t] = append(priv[t], g.newObjSeed(pt.kind, sd, false, false))
			}
		}
		// one template program, instantiated per task
		type tstep struct {
			kind   uint8
			shared bool
			obj    int
			sub    uint8
			n      int
			seed   uint64
		}
		var steps []tstep
		ops := 6 + r.intn(20)
		for i := 0; i < ops; i++ {
			st := tstep{}
			switch r.intn(10) {
			case 0:
				st.kind = opUnit
				st.n = g.pickUnit()
				st.seed = r.u64()
			case 1:
				st.kind = opNack
				st.seed = r.u64()
			case 2, 3, 4:
				st.kind = 1 // read-only on private (+ marshal + decode)
				st.obj = r.intn(np)
				st.seed = r.u64()
			default:
				st.kind = 2 // read-only on shared
				st.obj = r.intn(ns)
				st.seed = r.u64()
			}
			steps = append(steps, st)
		}
		for t := 0; t < n; t++ {
			for _, st := range steps {
				switch st.kind {
				case opUnit:
					g.emit(t, Op{K: opUnit, A: -1, B: -1, N: st.n, Seed: st.seed})
				case opNack:
					g.emit(t, Op{K: opNack, A: -1, B: -1, Seed: st.seed})
				case 1:
					save := g.r
					g.r = &rng{s: st.seed}
					o := priv[t][st.obj]
					g.readOnlyOps(t, o, 1+g.r.intn(2), false)
					b := g.newSlot()
					g.emit(t, Op{K: opMarshal, A: o, B: b})
					g.decodeOps(t, b)
					if g.r.chance(3) {
						// whole-value overwrite, or a single-leaf tweak that makes this task's object a near twin
						// of the equal-valued objects the other tasks hold
						g.emit(t, Op{K: opMutate, A: o, B: -1, N: g.r.intn(2), Seed: g.r.u64() + uint64(t)})
						g.readOnlyOps(t, o, 1, false)
						b2 := g.newSlot()
						g.emit(t, Op{K: opMarshal, A: o, B: b2})
						if g.r.chance(2) {
							g.decodeOps(t, b2)
						}
					}
					g.r = save
				case 2:
					save := g.r
					g.r = &rng{s: st.seed}
					o := sharedSlots[st.obj]
					g.readOnlyOps(t, o, 1+g.r.intn(3), true)
					if g.r.chance(2) {
						b := g.newSlot()
						g.emit(t, Op{K: opMarshalSafe, A: o, B: b})
						g.decodeOps(t, b)
					}
					g.r = save
				}
			}
		}
	} else {
		s.Mode = "sfu"
		ns := r.intn(4)
		for i := 0; i < ns; i++ {
			g.shared = append(g.shared, g.newObj(g.pickKind(), false, true))
		}
		actions := 10 + r.intn(50)
		if tier == "thorough" && r.chance(3) {
			actions = 60 + r.intn(80)
		}
		for a := 0; a < actions; a++ {
			t := r.intn(n)
			switch x := r.intn(10); {
			case x < 4:
				g.flow(t)
			case x < 7:
				g.deliver(t, false)
			case x < 9:
				g.history(t)
			default:
				g.sharedOps(t)
			}
		}
		for round := 0; round < 6; round++ {
			for t := 0; t < n; t++ {
				g.deliver(t, true)
			}
		}
	}
	var est uint64
	for _, p := range s.Tasks {
		est += uint64(len(p)) * 120
	}
	if est < 64 {
		est = 64
	}
	s.Sched = genSchedConfig(r, g.n, est, opOnly, tier)
	if s.Mode == "volume" {
		s.Sched.Gran = granOp
		s.Sched.StepCap = 600000
	}
	if s.Mode == "soak" && !opOnly {
		s.Sched.Gran = []int{granOp, granOp, granFunc, granStmt}[r.intn(4)]
		s.Sched.StepCap = 600000
	}
	return s
}

// volumeOdds: one run in so many is a volume run.
func volumeOdds(tier string) int {
	if tier == "thorough" {
		return 60
	}
	return 150
}
