package main

// Deep dumps of values, used as snapshots.
//
// The dumper is synchronisation-free (no fmt, no locks, no pools): it may run
// inside a task during the concurrent phase without creating happens-before
// edges between tasks.  It only uses the lock-free subset of reflect.
//
//   - semantic mode: value only (no addresses, no capacities); nil and empty
//     are distinguished; floats by bit pattern; unexported fields are NOT read: the harness observes only what a user of the API can.
//   - physical mode: additionally data pointers, capacities and the contents of
//     every slice up to its capacity, so that a write into the spare capacity of
//     a caller's backing array, or a re-slice, is visible.
//
// With maskXR, fields of type rtcp.XRHeader are skipped (the documented
// exception: ExtendedReport.Marshal fills them in).

import (
	"reflect"
	"strconv"

	"github.com/pion/rtcp"
)

var xrHeaderType = reflect.TypeOf(rtcp.XRHeader{})

// exportedMask[T][i] reports whether field i of struct type T is exported.  Built
// once before the first run (read-only afterwards, so tasks may consult it freely).
var exportedMask = map[reflect.Type][]bool{}

func collectTypes(t reflect.Type, depth int) {
	if depth > 12 {
		return
	}
	switch t.Kind() {
	case reflect.Ptr, reflect.Slice, reflect.Array:
		collectTypes(t.Elem(), depth+1)
	case reflect.Struct:
		if _, ok := exportedMask[t]; ok {
			return
		}
		m := make([]bool, t.NumField())
		exportedMask[t] = m
		for i := 0; i < t.NumField(); i++ {
			f := t.Field(i)
			m[i] = f.PkgPath == ""
			collectTypes(f.Type, depth+1)
		}
	}
}

// initTypeMasks walks every type the workload can meet.
func initTypeMasks() {
	for k := 0; k < numKinds; k++ {
		collectTypes(reflect.TypeOf(newOfKind(k)), 0)
	}
	for k := 0; k < 8; k++ {
		collectTypes(reflect.TypeOf(genXRBlock(&rng{s: 1}, k, szOne)), 0)
	}
	for _, x := range []interface{}{rtcp.Header{}, rtcp.ReceptionReport{}, rtcp.SourceDescriptionChunk{}, rtcp.SourceDescriptionItem{},
		rtcp.RunLengthChunk{}, rtcp.StatusVectorChunk{}, rtcp.RecvDelta{}, rtcp.NackPair{}, rtcp.CCFeedbackReportBlock{}} {
		collectTypes(reflect.TypeOf(x), 0)
	}
}

type dumper struct {
	buf    []byte
	phys   bool
	maskXR bool
}

const hexdigits = "0123456789abcdef"

func (d *dumper) hex(b []byte) {
	for _, c := range b {
		d.buf = append(d.buf, hexdigits[c>>4], hexdigits[c&15])
	}
}

func (d *dumper) ptr(p uintptr) {
	d.buf = append(d.buf, '@')
	d.buf = strconv.AppendUint(d.buf, uint64(p), 16)
}

func (d *dumper) val(v reflect.Value, depth int) {
	if depth > 40 {
		d.buf = append(d.buf, "<deep>"...)
		return
	}
	if !v.IsValid() {
		d.buf = append(d.buf, "<invalid>"...)
		return
	}
	switch v.Kind() {
	case reflect.Bool:
		if v.Bool() {
			d.buf = append(d.buf, 'T')
		} else {
			d.buf = append(d.buf, 'F')
		}
	case reflect.Int, reflect.Int8, reflect.Int16, reflect.Int32, reflect.Int64:
		d.buf = strconv.AppendInt(d.buf, v.Int(), 10)
	case reflect.Uint, reflect.Uint8, reflect.Uint16, reflect.Uint32, reflect.Uint64, reflect.Uintptr:
		d.buf = strconv.AppendUint(d.buf, v.Uint(), 10)
	case reflect.Float32, reflect.Float64:
		d.buf = append(d.buf, 'f')
		d.buf = strconv.AppendUint(d.buf, floatBits(v), 16)
	case reflect.String:
		s := v.String()
		if d.phys {
			d.buf = append(d.buf, 's')
			d.buf = strconv.AppendInt(d.buf, int64(len(s)), 10)
		}
		// hex: the dump stays printable whatever the text contains
		d.buf = append(d.buf, '"')
		for i := 0; i < len(s); i++ {
			d.buf = append(d.buf, hexdigits[s[i]>>4], hexdigits[s[i]&15])
		}
		d.buf = append(d.buf, '"')
	case reflect.Slice:
		if v.IsNil() {
			d.buf = append(d.buf, "nil[]"...)
			return
		}
		n := v.Len()
		d.buf = append(d.buf, '[')
		d.buf = strconv.AppendInt(d.buf, int64(n), 10)
		full := v
		if d.phys {
			d.buf = append(d.buf, '/')
			d.buf = strconv.AppendInt(d.buf, int64(v.Cap()), 10)
			d.ptr(v.Pointer())
			if v.Cap() > n {
				full = v.Slice3(0, v.Cap(), v.Cap())
			}
		}
		d.buf = append(d.buf, ':')
		if v.Type().Elem().Kind() == reflect.Uint8 {
			d.hex(full.Bytes())
		} else {
			m := full.Len()
			for i := 0; i < m; i++ {
				if i > 0 {
					d.buf = append(d.buf, ',')
				}
				d.val(full.Index(i), depth+1)
			}
		}
		d.buf = append(d.buf, ']')
	case reflect.Array:
		d.buf = append(d.buf, '(')
		for i := 0; i < v.Len(); i++ {
			if i > 0 {
				d.buf = append(d.buf, ',')
			}
			d.val(v.Index(i), depth+1)
		}
		d.buf = append(d.buf, ')')
	case reflect.Struct:
		if d.maskXR && v.Type() == xrHeaderType {
			d.buf = append(d.buf, "{XRHeader:masked}"...)
			return
		}
		d.buf = append(d.buf, '{')
		mask := exportedMask[v.Type()]
		for i := 0; i < v.NumField(); i++ {
			if i > 0 {
				d.buf = append(d.buf, ' ')
			}
			hidden := false
			if mask != nil {
				hidden = !mask[i]
			} else {
				hidden = v.Type().Field(i).PkgPath != ""
			}
			if hidden {
				// Unexported field: hidden state.  The harness observes only what a user of the API can
				// observe; it must not even read hidden state (a correctly synchronised hidden cache is
				// accessed atomically by the library, and a plain read from here would itself be a race).
				d.buf = append(d.buf, '_')
				continue
			}
			d.val(v.Field(i), depth+1)
		}
		d.buf = append(d.buf, '}')
	case reflect.Ptr:
		if v.IsNil() {
			d.buf = append(d.buf, "nil*"...)
			return
		}
		d.buf = append(d.buf, '&')
		if d.phys {
			d.ptr(v.Pointer())
		}
		d.val(v.Elem(), depth+1)
	case reflect.Interface:
		if v.IsNil() {
			d.buf = append(d.buf, "nil-iface"...)
			return
		}
		e := v.Elem()
		d.buf = append(d.buf, '<')
		d.buf = append(d.buf, e.Type().String()...)
		d.buf = append(d.buf, '>')
		d.val(e, depth+1)
	case reflect.Map:
		d.buf = append(d.buf, "map#"...)
		if v.IsNil() {
			d.buf = append(d.buf, "nil"...)
			return
		}
		d.buf = strconv.AppendInt(d.buf, int64(v.Len()), 10)
		if d.phys {
			d.ptr(v.Pointer())
		}
	case reflect.Chan, reflect.Func, reflect.UnsafePointer:
		d.buf = append(d.buf, v.Kind().String()...)
		if v.IsNil() {
			d.buf = append(d.buf, "nil"...)
		} else if d.phys {
			d.ptr(v.Pointer())
		}
	default:
		d.buf = append(d.buf, "<?>"...)
	}
}

func floatBits(v reflect.Value) uint64 {
	f := v.Float()
	if v.Kind() == reflect.Float32 {
		return uint64(f32bits(float32(f)))
	}
	return f64bits(f)
}

// dumpSem returns the semantic dump of x (typically a pointer to a packet).
func dumpSem(x interface{}, maskXR bool) string {
	d := dumper{maskXR: maskXR}
	if x == nil {
		return "nil-iface"
	}
	v := reflect.ValueOf(x)
	d.buf = append(d.buf, '<')
	d.buf = append(d.buf, v.Type().String()...)
	d.buf = append(d.buf, '>')
	d.val(v, 0)
	return string(d.buf)
}

// dumpPhys returns the physical dump of x.
func dumpPhys(x interface{}, maskXR bool) string {
	d := dumper{phys: true, maskXR: maskXR}
	if x == nil {
		return "nil-iface"
	}
	v := reflect.ValueOf(x)
	d.buf = append(d.buf, '<')
	d.buf = append(d.buf, v.Type().String()...)
	d.buf = append(d.buf, '>')
	d.val(v, 0)
	return string(d.buf)
}
