//go:build !race

package main

const raceBuild = false
