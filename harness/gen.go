package main

// Seeded generator of packet values.  It builds values exclusively from struct
// literals: it never calls into package rtcp, so that a cold run (DESIGN §4.3)
// executes no rtcp code before the tasks start.

import (
	"math"
	"reflect"

	"github.com/pion/rtcp"
)

func f32bits(f float32) uint32 { return math.Float32bits(f) }
func f64bits(f float64) uint64 { return math.Float64bits(f) }

// rng is the seeded generator.  narrow makes the values drawn for identifiers and texts come from a tiny set (the
// packets of one session keep naming the same few sources): keys recur and collide.  An object is narrow iff the
// top bit of its seed is set, so the property travels with the seed through provenance, twins and overwrites.
type rng struct {
	s      uint64
	narrow bool
}

const narrowBit = uint64(1) << 63

func (r *rng) u64() uint64 {
	r.s += 0x9e3779b97f4a7c15
	z := r.s
	z = (z ^ (z >> 30)) * 0xbf58476d1ce4e5b9
	z = (z ^ (z >> 27)) * 0x94d049bb133111eb
	return z ^ (z >> 31)
}
func (r *rng) intn(n int) int {
	if n <= 0 {
		return 0
	}
	return int(r.u64() % uint64(n))
}
func (r *rng) u32() uint32       { return uint32(r.u64()) }
func (r *rng) u16() uint16       { return uint16(r.u64()) }
func (r *rng) u8() uint8         { return uint8(r.u64()) }
func (r *rng) chance(n int) bool { return r.intn(n) == 0 }
func (r *rng) fork() *rng        { return &rng{s: r.u64(), narrow: r.narrow} }

// tfield returns an XR thinning value: usually four bits, sometimes with bits the wire cannot carry.
func (r *rng) tfield() uint8 {
	if r.chance(4) {
		return r.u8()
	}
	return r.u8() & 0x0F
}

// smallU8 is zero a quarter of the time.
func (r *rng) smallU8() uint8 {
	if r.chance(4) {
		return 0
	}
	return r.u8()
}

// seq16 returns an interesting 16-bit sequence number: often near the wrap-around.
func (r *rng) seq16() uint16 {
	switch r.intn(6) {
	case 0:
		return uint16(65535 - r.intn(20))
	case 1:
		return uint16(r.intn(20))
	}
	return r.u16()
}

// interesting 32-bit values
// sessionSSRCs: the packets of one session keep referring to the same handful of sources.
var sessionSSRCs = [...]uint32{1, 2, 3, 4, 0x4A3B2C1D, 0x902F0E11, 0xDEADBEEF, 0x00010000}

func (r *rng) ssrc() uint32 {
	if r.narrow && !r.chance(8) {
		return sessionSSRCs[4+r.intn(3)]
	}
	switch r.intn(8) {
	case 0:
		return 0
	case 1:
		return 0xFFFFFFFF
	case 2, 3, 4:
		return sessionSSRCs[r.intn(len(sessionSSRCs))] // collisions between packets on purpose
	}
	return r.u32()
}

const (
	kSR = iota
	kRR
	kSDES
	kBYE
	kAPP
	kNACK
	kRRR
	kTWCC
	kCCFB
	kPLI
	kSLI
	kREMB
	kFIR
	kXR
	kRaw
	kCompound
	numKinds
)

// size classes
const (
	szMin = iota
	szOne
	szTypical
	szLarge
	szBad // out of range: Marshal must fail (where the type can fail)
)

// bigBias > 0 shifts the size-class mix towards large and out-of-range values (thorough tier).
var bigBias int

func (r *rng) sizeClass() int {
	if bigBias > 0 && r.chance(4) {
		if r.chance(3) {
			return szBad
		}
		return szLarge
	}
	switch x := r.intn(20); {
	case x < 3:
		return szMin
	case x < 7:
		return szOne
	case x < 15:
		return szTypical
	case x < 18:
		return szLarge
	}
	return szBad
}

func (r *rng) count(sz, typMax, max int) int {
	switch sz {
	case szMin:
		return 0
	case szOne:
		return 1
	case szTypical:
		return 2 + r.intn(typMax-1)
	case szLarge:
		if r.chance(2) {
			return max
		}
		return max/2 + r.intn(max/2+1)
	}
	return max + 1 + r.intn(3)
}

const sentinel = 0xA5

// spareBytes returns a byte slice of length n with random spare capacity
// pre-filled with a sentinel pattern (DESIGN §4.4 rule 9).
func (r *rng) spareBytes(n int) []byte {
	extra := 0
	if r.chance(2) {
		extra = 1 + r.intn(9)
	}
	b := make([]byte, n+extra)
	for i := range b {
		if i < n {
			b[i] = r.u8()
		} else {
			b[i] = sentinel
		}
	}
	return b[:n]
}

func (r *rng) spareU32(n int) []uint32 {
	extra := 0
	if r.chance(2) {
		extra = 1 + r.intn(5)
	}
	b := make([]uint32, n+extra)
	for i := range b {
		if i < n {
			b[i] = r.ssrc()
		} else {
			b[i] = 0xA5A5A5A5
		}
	}
	return b[:n]
}

func (r *rng) text(n int) string {
	b := make([]byte, n)
	for i := range b {
		if r.chance(16) {
			b[i] = r.u8() // arbitrary octet, incl. NUL and non-UTF8
		} else {
			b[i] = byte('a' + r.intn(26))
		}
	}
	return string(b)
}

func genReception(r *rng, bad bool) rtcp.ReceptionReport {
	rr := rtcp.ReceptionReport{
		SSRC:               r.ssrc(),
		FractionLost:       r.u8(),
		TotalLost:          r.u32() & 0xFFFFFF,
		LastSequenceNumber: r.u32(),
		Jitter:             r.u32(),
		LastSenderReport:   r.u32(),
		Delay:              r.u32(),
	}
	switch r.intn(10) {
	case 0:
		rr.TotalLost = 0x800000 | r.u32()&0xFFFF // negative as a signed 24-bit quantity
	case 1:
		rr.TotalLost = 0xFFFFFF
	case 2:
		rr.FractionLost, rr.TotalLost = 0, 1+r.u32()&0xFF
	}
	if bad {
		rr.TotalLost = 1<<25 + r.u32()&0xFFFF
	}
	return rr
}

func genReports(r *rng, sz int) []rtcp.ReceptionReport {
	n := r.count(sz, 4, 31)
	if sz == szMin && r.chance(2) {
		return nil
	}
	extra := 0
	if r.chance(2) {
		extra = 1 + r.intn(3)
	}
	out := make([]rtcp.ReceptionReport, n+extra)
	for i := range out {
		out[i] = genReception(r, false)
		if i >= n {
			out[i] = rtcp.ReceptionReport{SSRC: 0xA5A5A5A5, Jitter: 0xA5A5A5A5}
		}
	}
	if sz == szBad && n > 0 && r.chance(2) {
		// alternative way of being out of range: valid count, oversized TotalLost
		n = 1 + r.intn(3)
		out = out[:n]
		out[r.intn(n)] = genReception(r, true)
		return out
	}
	return out[:n]
}

// relateReports sometimes makes report blocks equal to each other or refer to the sender itself.
func relateReports(r *rng, sender uint32, reps []rtcp.ReceptionReport) {
	if len(reps) == 0 {
		return
	}
	switch r.intn(8) {
	case 0:
		reps[r.intn(len(reps))].SSRC = sender
	case 1:
		if len(reps) > 1 {
			reps[len(reps)-1] = reps[0] // two equal blocks
		}
	case 2:
		for i := range reps {
			reps[i].SSRC = uint32(i + 1) // sorted
		}
	}
}

func genProfileExt(r *rng) []byte {
	switch r.intn(4) {
	case 0:
		return nil
	case 1:
		return r.spareBytes(4 * (1 + r.intn(4)))
	case 2:
		return r.spareBytes(1 + r.intn(11)) // not a multiple of 4
	}
	return r.spareBytes(0)
}

func genSR(r *rng, sz int) *rtcp.SenderReport {
	sr := &rtcp.SenderReport{
		SSRC: r.ssrc(), NTPTime: r.u64(), RTPTime: r.u32(), PacketCount: r.u32(), OctetCount: r.u32(),
		Reports: genReports(r, sz), ProfileExtensions: genProfileExt(r),
	}
	relateReports(r, sr.SSRC, sr.Reports)
	return sr
}

func genRR(r *rng, sz int) *rtcp.ReceiverReport {
	rr := &rtcp.ReceiverReport{SSRC: r.ssrc(), Reports: genReports(r, sz), ProfileExtensions: genProfileExt(r)}
	relateReports(r, rr.SSRC, rr.Reports)
	return rr
}

func genItem(r *rng, sz int, cname bool) rtcp.SourceDescriptionItem {
	t := rtcp.SDESType(1 + r.intn(8))
	if r.chance(12) {
		t = rtcp.SDESType(9 + r.intn(247)) // an item type the library has no name for
	}
	if cname {
		t = rtcp.SDESCNAME
	}
	n := 0
	switch sz {
	case szMin:
		n = 0
	case szOne:
		n = 1
	case szTypical:
		n = 2 + r.intn(30)
	case szLarge:
		n = 255
	case szBad:
		if r.chance(2) {
			n = 256 + r.intn(10)
		} else {
			t = rtcp.SDESEnd
			n = 3
		}
	}
	if sz == szTypical && r.narrow && !r.chance(8) {
		return rtcp.SourceDescriptionItem{Type: t, Text: vocabText([]int{16, 16, 40}[r.intn(3)], r.intn(4))}
	}
	if sz == szTypical && !r.chance(3) {
		// Texts of a real session come from a small vocabulary of equal-length strings (a stack generates all its
		// CNAMEs the same way): values recur and near-collide across the packets of one run, which is what
		// exercises tables keyed by a text or by its digest.
		return rtcp.SourceDescriptionItem{Type: t, Text: vocabText([]int{16, 16, 16, 8, 8, 40, 72}[r.intn(7)], r.intn(vocabWords))}
	}
	return rtcp.SourceDescriptionItem{Type: t, Text: r.text(n)}
}

const vocabWords = 40

// vocabText returns word i of the fixed vocabulary of n-octet texts (n >= 2): the words differ in their last two octets.
func vocabText(n, i int) string {
	// (tool names, user agents and gateway CNAMEs share long prefixes: the longer words do too)
	const stem = "k7Qe2xLmP0vTz9RbpionWebRTC-gateway/3.2.29 (linux; amd64) session-0000000000000000"
	b := []byte(stem[:n])
	b[n-2] = byte('A' + i/8)
	b[n-1] = byte('a' + i%8*3)
	return string(b)
}

func genChunk(r *rng, sz int, cname bool) rtcp.SourceDescriptionChunk {
	n := 1 + r.intn(3)
	if sz == szMin {
		n = r.intn(2)
	}
	if cname && n == 0 {
		n = 1
	}
	c := rtcp.SourceDescriptionChunk{Source: r.ssrc()}
	for i := 0; i < n; i++ {
		isz := szTypical
		if i == 0 {
			isz = sz
			if isz == szBad && r.chance(2) {
				isz = szTypical
			}
		}
		c.Items = append(c.Items, genItem(r, isz, cname && i == 0))
	}
	return c
}

func genSDES(r *rng, sz int, cname bool) *rtcp.SourceDescription {
	n := r.count(sz, 3, 31)
	if sz == szBad && r.chance(2) {
		n = 1 + r.intn(2) // bad item instead of bad count
	} else if sz == szBad {
		sz = szTypical
	}
	if cname && n == 0 {
		n = 1
	}
	s := &rtcp.SourceDescription{}
	for i := 0; i < n; i++ {
		csz := szTypical
		if i == 0 {
			csz = sz
		}
		if cname && i == 0 && (csz == szBad || csz == szMin) {
			csz = szTypical
		}
		s.Chunks = append(s.Chunks, genChunk(r, csz, cname && i == 0))
	}
	return s
}

func genBYE(r *rng, sz int) *rtcp.Goodbye {
	g := &rtcp.Goodbye{Sources: r.spareU32(r.count(sz, 3, 31))}
	switch r.intn(4) {
	case 0:
	case 1:
		g.Reason = r.text(1 + r.intn(20))
	case 2:
		g.Reason = r.text(255)
	case 3:
		if sz == szBad {
			g.Sources = r.spareU32(1)
			g.Reason = r.text(256 + r.intn(4))
		} else {
			g.Reason = r.text(3)
		}
	}
	if sz == szMin && r.chance(2) {
		g.Sources = nil
	}
	return g
}

func genAPP(r *rng, sz int) *rtcp.ApplicationDefined {
	a := &rtcp.ApplicationDefined{SubType: uint8(r.intn(32)), SSRC: r.ssrc(), Name: r.text(4)}
	switch sz {
	case szMin:
		if r.chance(2) {
			a.Data = r.spareBytes(0)
		}
	case szOne:
		a.Data = r.spareBytes(1 + r.intn(3))
	case szTypical:
		a.Data = r.spareBytes(4 + r.intn(40))
	case szLarge:
		a.Data = r.spareBytes(1000 + r.intn(3000))
	case szBad:
		switch r.intn(4) {
		case 3:
			a.Data = r.spareBytes(0xFFFF - 12 + 1 + r.intn(8)) // too large for the 16-bit length field
			return a
		case 0:
			a.SubType = 32 + uint8(r.intn(200))
		case 1:
			a.Name = r.text(r.intn(4))
		case 2:
			a.Name = r.text(5 + r.intn(3))
		}
		a.Data = r.spareBytes(r.intn(9))
	}
	return a
}

func genNACK(r *rng, sz int) *rtcp.TransportLayerNack {
	n := r.count(sz, 4, 253)
	p := &rtcp.TransportLayerNack{SenderSSRC: r.ssrc(), MediaSSRC: r.ssrc()}
	if n > 0 || r.chance(2) {
		extra := r.intn(3)
		nacks := make([]rtcp.NackPair, n+extra)
		for i := range nacks {
			nacks[i] = rtcp.NackPair{PacketID: r.u16(), LostPackets: rtcp.PacketBitmap(r.u16())}
			if i >= n {
				nacks[i] = rtcp.NackPair{PacketID: 0xA5A5, LostPackets: 0xA5A5}
			}
		}
		p.Nacks = nacks[:n]
		base := r.seq16()
		switch r.intn(8) {
		case 0: // consecutive / overlapping windows, possibly wrapping
			for i := range p.Nacks {
				p.Nacks[i].PacketID = base + uint16(i*(1+r.intn(17)))
			}
		case 1: // descending
			for i := range p.Nacks {
				p.Nacks[i].PacketID = base - uint16(i*17)
			}
		case 2: // extreme bitmasks
			for i := range p.Nacks {
				if r.chance(2) {
					p.Nacks[i].LostPackets = 0xFFFF
				} else {
					p.Nacks[i].LostPackets = 0
				}
			}
		case 3: // equal pairs
			for i := range p.Nacks {
				p.Nacks[i] = p.Nacks[0]
			}
		}
	}
	if r.chance(8) {
		p.MediaSSRC = p.SenderSSRC
	}
	return p
}

func genTWCC(r *rng, sz int) *rtcp.TransportLayerCC {
	t := &rtcp.TransportLayerCC{
		SenderSSRC: r.ssrc(), MediaSSRC: r.ssrc(), BaseSequenceNumber: r.u16(),
		ReferenceTime: r.u32() & 0xFFFFFF, FbPktCount: r.smallU8(),
	}
	nChunks := 0
	switch sz {
	case szMin:
		nChunks = 0
	case szOne:
		nChunks = 1
	case szTypical, szBad:
		nChunks = 2 + r.intn(4)
	case szLarge:
		nChunks = 20 + r.intn(40)
	}
	var total int
	addDelta := func(sym uint16) {
		switch sym {
		case rtcp.TypeTCCPacketReceivedSmallDelta:
			d := int64(r.intn(256)) * rtcp.TypeTCCDeltaScaleFactor
			switch r.intn(12) {
			case 0:
				d = 63750 // largest small delta
			case 1:
				d = 0
			case 2:
				d += int64(1 + r.intn(249)) // not a multiple of the 250 µs tick
			}
			t.RecvDeltas = append(t.RecvDeltas, &rtcp.RecvDelta{Type: sym, Delta: d})
		case rtcp.TypeTCCPacketReceivedLargeDelta:
			d := int64(r.intn(65536)-32768) * rtcp.TypeTCCDeltaScaleFactor
			switch r.intn(12) {
			case 0:
				d = -250
			case 1:
				d = 64000 // smallest delta that needs the large form
			case 2:
				d = 8191750
			case 3:
				d = -8192000
			}
			t.RecvDeltas = append(t.RecvDeltas, &rtcp.RecvDelta{Type: sym, Delta: d})
		}
	}
	for i := 0; i < nChunks; i++ {
		if r.chance(2) {
			sym := uint16(r.intn(3))
			run := uint16(1 + r.intn(20))
			if r.chance(12) {
				run = 0 // an empty run is encodable
			}
			t.PacketChunks = append(t.PacketChunks, &rtcp.RunLengthChunk{Type: rtcp.TypeTCCRunLengthChunk, PacketStatusSymbol: sym, RunLength: run})
			for j := 0; j < int(run); j++ {
				addDelta(sym)
			}
			total += int(run)
		} else if r.chance(2) {
			c := &rtcp.StatusVectorChunk{Type: rtcp.TypeTCCStatusVectorChunk, SymbolSize: rtcp.TypeTCCSymbolSizeOneBit}
			all := -1
			if r.chance(6) {
				all = r.intn(2)
			}
			for j := 0; j < 14; j++ {
				s := uint16(r.intn(2))
				if all >= 0 {
					s = uint16(all)
				}
				c.SymbolList = append(c.SymbolList, s)
				addDelta(s)
			}
			t.PacketChunks = append(t.PacketChunks, c)
			total += 14
		} else {
			c := &rtcp.StatusVectorChunk{Type: rtcp.TypeTCCStatusVectorChunk, SymbolSize: rtcp.TypeTCCSymbolSizeTwoBit}
			for j := 0; j < 7; j++ {
				s := uint16(r.intn(3))
				c.SymbolList = append(c.SymbolList, s)
				addDelta(s)
			}
			t.PacketChunks = append(t.PacketChunks, c)
			total += 7
		}
	}
	if len(t.RecvDeltas) > 2 && r.chance(10) {
		// two entries of the delta list share one *RecvDelta (legal for equal deltas)
		i, j := r.intn(len(t.RecvDeltas)), r.intn(len(t.RecvDeltas))
		if t.RecvDeltas[i].Type == t.RecvDeltas[j].Type {
			t.RecvDeltas[j] = t.RecvDeltas[i]
		}
	}
	if len(t.PacketChunks) > 1 && r.chance(10) {
		// the same chunk object twice
		i, j := r.intn(len(t.PacketChunks)), r.intn(len(t.PacketChunks))
		if sameChunkShape(t.PacketChunks[i], t.PacketChunks[j]) {
			t.PacketChunks[j] = t.PacketChunks[i]
		}
	}
	t.PacketStatusCount = uint16(total)
	if total > 1 && r.chance(4) {
		// the last chunk reports more symbols than the packet status count covers (legal: a status vector
		// chunk always carries 7 or 14 symbols), or - rarely - the count promises more than the chunks hold
		if r.chance(5) {
			t.PacketStatusCount = uint16(total + 1 + r.intn(20))
		} else {
			cut := 1 + r.intn(6)
			if cut >= total {
				cut = total - 1
			}
			t.PacketStatusCount = uint16(total - cut)
		}
	}
	size := 20 + 2*len(t.PacketChunks)
	for _, d := range t.RecvDeltas {
		if d.Type == rtcp.TypeTCCPacketReceivedSmallDelta {
			size++
		} else {
			size += 2
		}
	}
	pad := size%4 != 0
	if pad {
		size = (size/4 + 1) * 4
	}
	t.Header = rtcp.Header{Padding: pad, Count: rtcp.FormatTCC, Type: rtcp.TypeTransportSpecificFeedback, Length: uint16(size/4 - 1)}
	switch r.intn(16) {
	case 0:
		t.Header.Padding = !t.Header.Padding // header disagrees with the content (the caller owns the header)
	case 1:
		t.Header.Length += uint16(1 + r.intn(2))
	case 2:
		if t.Header.Length > 0 {
			t.Header.Length--
		}
	}
	if sz == szBad {
		switch r.intn(4) {
		case 3:
			t.PacketChunks = append(t.PacketChunks, nil) // String prints <nil>; Marshal panics
		case 0:
			if len(t.RecvDeltas) > 0 {
				t.RecvDeltas[r.intn(len(t.RecvDeltas))].Delta = 1 << 40 // exceeds limit: silently skipped by Marshal
			}
		case 1:
			t.Header.Count = 40 // header.Marshal fails
		case 2:
			t.PacketChunks = append(t.PacketChunks, &rtcp.RunLengthChunk{PacketStatusSymbol: 9, RunLength: 1}) // chunk Marshal fails
		}
	}
	return t
}

// sameChunkShape reports whether two chunks contribute the same symbols (so that one object can stand for both).
func sameChunkShape(a, b rtcp.PacketStatusChunk) bool {
	switch x := a.(type) {
	case *rtcp.RunLengthChunk:
		y, ok := b.(*rtcp.RunLengthChunk)
		return ok && *x == *y
	case *rtcp.StatusVectorChunk:
		y, ok := b.(*rtcp.StatusVectorChunk)
		if !ok || x.SymbolSize != y.SymbolSize || len(x.SymbolList) != len(y.SymbolList) {
			return false
		}
		for i := range x.SymbolList {
			if x.SymbolList[i] != y.SymbolList[i] {
				return false
			}
		}
		return true
	}
	return false
}

func genCCFB(r *rng, sz int) *rtcp.CCFeedbackReport {
	c := &rtcp.CCFeedbackReport{SenderSSRC: r.ssrc(), ReportTimestamp: r.u32()}
	nb := 0
	switch sz {
	case szMin:
		nb = 0
	case szOne:
		nb = 1
	case szTypical, szBad:
		nb = 2 + r.intn(3)
	case szLarge:
		nb = 8 + r.intn(20)
	}
	for i := 0; i < nb; i++ {
		b := rtcp.CCFeedbackReportBlock{MediaSSRC: r.ssrc(), BeginSequence: r.seq16()}
		if i > 0 && r.chance(6) {
			b.MediaSSRC = c.ReportBlocks[0].MediaSSRC // two blocks for one source
		}
		nm := r.intn(12)
		bad := false
		if sz == szLarge && r.chance(8) {
			nm = 100 + r.intn(200) // CCFeedbackReportBlock.String is quadratic in this number
		}
		if sz == szBad && i == 0 {
			if r.chance(200) {
				nm = 16385 + r.intn(3) // too many metric blocks (expensive: String is quadratic)
			} else {
				nm = 1 + r.intn(6)
				bad = true
			}
		}
		if nm > 0 || r.chance(2) {
			b.MetricBlocks = make([]rtcp.CCFeedbackMetricBlock, nm)
			for j := range b.MetricBlocks {
				if r.chance(3) {
					// not received; a third of these keep stale ECN / offset values (the encoder must ignore them, not erase them)
					if r.chance(3) {
						b.MetricBlocks[j] = rtcp.CCFeedbackMetricBlock{Received: false, ECN: rtcp.ECN(r.intn(4)), ArrivalTimeOffset: uint16(r.intn(0x2000))}
					}
					continue
				}
				b.MetricBlocks[j] = rtcp.CCFeedbackMetricBlock{Received: true, ECN: rtcp.ECN(r.intn(4)), ArrivalTimeOffset: uint16(r.intn(0x2000))}
				if r.chance(10) {
					b.MetricBlocks[j].ArrivalTimeOffset = uint16(0x1FFE + r.intn(2)) // the two reserved-looking top values
				}
				if r.chance(16) {
					b.MetricBlocks[j].ArrivalTimeOffset = r.u16() // may be out of range
				}
			}
			if bad && nm > 0 {
				b.MetricBlocks[r.intn(nm)] = rtcp.CCFeedbackMetricBlock{Received: true, ArrivalTimeOffset: 0x2000 + uint16(r.intn(0x1000))}
			}
		}
		c.ReportBlocks = append(c.ReportBlocks, b)
	}
	return c
}

func genSLI(r *rng, sz int) *rtcp.SliceLossIndication {
	n := r.count(sz, 4, 253)
	p := &rtcp.SliceLossIndication{SenderSSRC: r.ssrc(), MediaSSRC: r.ssrc()}
	if n > 0 || r.chance(2) {
		p.SLI = make([]rtcp.SLIEntry, n)
		for i := range p.SLI {
			p.SLI[i] = rtcp.SLIEntry{First: r.u16() & 0x1FFF, Number: r.u16() & 0x1FFF, Picture: r.u8() & 0x3F}
			if r.chance(16) {
				p.SLI[i] = rtcp.SLIEntry{First: r.u16(), Number: r.u16(), Picture: r.u8()}
			}
		}
		switch r.intn(8) {
		case 0: // field limits
			for i := range p.SLI {
				p.SLI[i] = rtcp.SLIEntry{First: 0x1FFF, Number: 0x1FFF, Picture: 0x3F}
			}
		case 1: // sorted, equal pictures
			for i := range p.SLI {
				p.SLI[i] = rtcp.SLIEntry{First: uint16(i), Number: 1, Picture: 7}
			}
		}
	}
	if r.chance(8) {
		p.MediaSSRC = p.SenderSSRC
	}
	return p
}

func genFIR(r *rng, sz int) *rtcp.FullIntraRequest {
	n := r.count(sz, 4, 126)
	p := &rtcp.FullIntraRequest{SenderSSRC: r.ssrc(), MediaSSRC: r.ssrc()}
	if n > 0 || r.chance(2) {
		p.FIR = make([]rtcp.FIREntry, n)
		for i := range p.FIR {
			p.FIR[i] = rtcp.FIREntry{SSRC: r.ssrc(), SequenceNumber: r.u8()}
		}
		switch r.intn(8) {
		case 0: // one source, wrapping sequence numbers
			for i := range p.FIR {
				p.FIR[i] = rtcp.FIREntry{SSRC: p.MediaSSRC, SequenceNumber: uint8(250 + i)}
			}
		case 1: // all entries equal
			for i := range p.FIR {
				p.FIR[i] = p.FIR[0]
			}
		}
	}
	if r.chance(8) {
		p.MediaSSRC = p.SenderSSRC
	}
	return p
}

func genREMB(r *rng, sz int) *rtcp.ReceiverEstimatedMaximumBitrate {
	p := &rtcp.ReceiverEstimatedMaximumBitrate{SenderSSRC: r.ssrc()}
	switch r.intn(8) {
	case 0:
		p.Bitrate = 0
	case 1:
		p.Bitrate = float32(r.intn(1 << 18))
	case 2:
		p.Bitrate = float32(r.u32()) * 1000
	case 3:
		p.Bitrate = math.Float32frombits(r.u32()) // anything, incl. NaN, Inf, negative
	case 4:
		p.Bitrate = 1e22 // String panics on this tree (C17 territory); same outcome required everywhere
	case 5:
		p.Bitrate = float32(0x3FFFF) * float32(uint64(1)<<uint(r.intn(64)))
	default:
		p.Bitrate = float32(r.intn(100000000))
	}
	n := r.count(sz, 3, 255)
	if sz == szBad {
		n = 256 + r.intn(3)
	}
	if n > 0 || r.chance(2) {
		p.SSRCs = r.spareU32(n)
	}
	if len(p.SSRCs) > 0 {
		switch r.intn(8) {
		case 0:
			p.SSRCs[r.intn(len(p.SSRCs))] = p.SenderSSRC
		case 1:
			p.SSRCs[len(p.SSRCs)-1] = p.SSRCs[0]
		}
	}
	return p
}

func genChunks(r *rng, n int) []rtcp.Chunk {
	if n == 0 && r.chance(2) {
		return nil
	}
	out := make([]rtcp.Chunk, n)
	for i := range out {
		out[i] = rtcp.Chunk(r.u16())
	}
	return out
}

func genXRBlock(r *rng, kind int, sz int) rtcp.ReportBlock {
	n := 0
	switch sz {
	case szMin:
		n = 0
	case szOne:
		n = 1
	case szTypical, szBad:
		n = 2 + r.intn(5)
	case szLarge:
		n = 100 + r.intn(400)
	}
	switch kind {
	case 0:
		return &rtcp.LossRLEReportBlock{T: r.tfield(), SSRC: r.ssrc(), BeginSeq: r.u16(), EndSeq: r.u16(), Chunks: genChunks(r, n)}
	case 1:
		return &rtcp.DuplicateRLEReportBlock{T: r.tfield(), SSRC: r.ssrc(), BeginSeq: r.u16(), EndSeq: r.u16(), Chunks: genChunks(r, n)}
	case 2:
		b := &rtcp.PacketReceiptTimesReportBlock{T: r.tfield(), SSRC: r.ssrc(), BeginSeq: r.u16(), EndSeq: r.u16()}
		if n > 0 || r.chance(2) {
			b.ReceiptTime = r.spareU32(n)
		}
		return b
	case 3:
		return &rtcp.ReceiverReferenceTimeReportBlock{NTPTimestamp: r.u64()}
	case 4:
		b := &rtcp.DLRRReportBlock{}
		if n > 0 || r.chance(2) {
			b.Reports = make([]rtcp.DLRRReport, n)
			for i := range b.Reports {
				b.Reports[i] = rtcp.DLRRReport{SSRC: r.ssrc(), LastRR: r.u32(), DLRR: r.u32()}
			}
		}
		return b
	case 5:
		return &rtcp.StatisticsSummaryReportBlock{
			LossReports: r.chance(2), DuplicateReports: r.chance(2), JitterReports: r.chance(2),
			TTLorHopLimit: rtcp.TTLorHopLimitType(r.intn(4)), SSRC: r.ssrc(), BeginSeq: r.u16(), EndSeq: r.u16(),
			LostPackets: r.u32(), DupPackets: r.u32(), MinJitter: r.u32(), MaxJitter: r.u32(), MeanJitter: r.u32(), DevJitter: r.u32(),
			MinTTLOrHL: r.u8(), MaxTTLOrHL: r.u8(), MeanTTLOrHL: r.u8(), DevTTLOrHL: r.u8(),
		}
	case 6:
		return &rtcp.VoIPMetricsReportBlock{
			SSRC: r.ssrc(), LossRate: r.u8(), DiscardRate: r.u8(), BurstDensity: r.u8(), GapDensity: r.u8(),
			BurstDuration: r.u16(), GapDuration: r.u16(), RoundTripDelay: r.u16(), EndSystemDelay: r.u16(),
			SignalLevel: r.u8(), NoiseLevel: r.u8(), RERL: r.u8(), Gmin: r.u8(), RFactor: r.u8(), ExtRFactor: r.u8(),
			MOSLQ: r.u8(), MOSCQ: r.u8(), RXConfig: r.u8(), JBNominal: r.u16(), JBMaximum: r.u16(), JBAbsMax: r.u16(),
		}
	}
	nb := 4 * n
	if r.chance(6) {
		nb += 1 + r.intn(3) // not a whole number of words
	}
	b := &rtcp.UnknownReportBlock{Bytes: r.spareBytes(nb)}
	b.XRHeader.BlockType = rtcp.BlockTypeType(8 + r.intn(248))
	if r.chance(4) {
		// an opaque block may carry any type number, including one the library knows (or 0)
		b.XRHeader.BlockType = rtcp.BlockTypeType(r.intn(8))
	}
	b.XRHeader.TypeSpecific = rtcp.TypeSpecificField(r.u8())
	return b
}

func genXR(r *rng, sz int) *rtcp.ExtendedReport {
	x := &rtcp.ExtendedReport{SenderSSRC: r.ssrc()}
	n := 0
	switch sz {
	case szMin:
		n = 0
	case szOne:
		n = 1
	case szTypical, szBad:
		n = 2 + r.intn(4)
	case szLarge:
		n = 8 + r.intn(8)
	}
	for i := 0; i < n; i++ {
		bsz := r.sizeClass()
		if sz != szLarge && bsz == szLarge {
			bsz = szTypical
		}
		x.Reports = append(x.Reports, genXRBlock(r, r.intn(8), bsz))
	}
	if sz == szBad && r.chance(4) {
		// a nil block: String prints <nil>; Marshal, MarshalSize and DestinationSSRC panic the same way everywhere
		x.Reports = append(x.Reports, nil)
	}
	if len(x.Reports) > 0 && r.chance(10) {
		// the same block object listed twice
		x.Reports = append(x.Reports, x.Reports[r.intn(len(x.Reports))])
	}
	return x
}

func genRaw(r *rng, sz int) *rtcp.RawPacket {
	words := 0
	switch sz {
	case szMin:
		words = 0
	case szOne:
		words = 1
	case szTypical:
		words = 2 + r.intn(6)
	case szLarge:
		words = 100 + r.intn(200)
	case szBad:
		// not even a header / inconsistent length
		b := rtcp.RawPacket(r.spareBytes(r.intn(12)))
		return &b
	}
	b := r.spareBytes(4 + 4*words)
	pt := []byte{192, 193, 194, 195, 199, 208, 209, 255, 0, 77}[r.intn(10)]
	fmtv := byte(r.intn(32))
	if r.chance(3) {
		// feedback packet with an unassigned FMT
		pt = byte(205 + r.intn(2))
		fmtv = []byte{0, 3, 6, 7, 8, 9, 10, 12, 13, 14, 16, 31}[r.intn(12)]
	}
	b[0] = 0x80 | fmtv
	if r.chance(4) && len(b) > 4 {
		b[0] |= 0x20 // padding flag; the last octet (any value) is then the pad count
	}
	b[1] = pt
	b[2] = byte(words >> 8)
	b[3] = byte(words)
	raw := rtcp.RawPacket(b)
	return &raw
}

// genPacket builds a fresh packet of the given kind from the seed.  Equal
// (kind, seed) give equal values at fresh addresses.
func genPacket(kind int, seed uint64) rtcp.Packet {
	r := &rng{s: seed ^ uint64(kind)*0x9e3779b97f4a7c15, narrow: seed&narrowBit != 0}
	sz := r.sizeClass()
	p := genPacketSz(r, kind, sz)
	addSpare(reflect.ValueOf(p), r.fork(), 0)
	return p
}

// addSpare gives the slices inside a generated value random spare capacity whose slots hold a
// recognisable non-zero pattern (DESIGN §4.4 rule 9, for every element type): an append by the
// library into a caller's backing array then lands in memory the snapshots cover instead of
// silently reallocating.  Slots of pointer or interface type stay nil (a write makes them non-nil).
func addSpare(v reflect.Value, r *rng, depth int) {
	if depth > 12 || !v.IsValid() {
		return
	}
	switch v.Kind() {
	case reflect.Ptr, reflect.Interface:
		if !v.IsNil() {
			addSpare(v.Elem(), r, depth+1)
		}
	case reflect.Struct:
		t := v.Type()
		for i := 0; i < t.NumField(); i++ {
			if t.Field(i).PkgPath == "" {
				addSpare(v.Field(i), r, depth+1)
			}
		}
	case reflect.Slice:
		if v.IsNil() || !v.CanSet() {
			return
		}
		n := v.Len()
		if v.Cap() == n && r.chance(2) && v.Type().Elem().Kind() != reflect.Uint8 {
			extra := 1 + r.intn(3)
			nv := reflect.MakeSlice(v.Type(), n+extra, n+extra)
			reflect.Copy(nv, v)
			for i := n; i < n+extra; i++ {
				fillPattern(nv.Index(i), 0)
			}
			v.Set(nv.Slice(0, n))
		}
		lim := n
		if lim > 40 {
			lim = 40
		}
		for i := 0; i < lim; i++ {
			addSpare(v.Index(i), r, depth+1)
		}
	}
}

// fillPattern stores a recognisable non-zero pattern in a spare slot.
func fillPattern(v reflect.Value, depth int) {
	if depth > 6 || !v.CanSet() {
		return
	}
	switch v.Kind() {
	case reflect.Bool:
		v.SetBool(true)
	case reflect.Int, reflect.Int8, reflect.Int16, reflect.Int32, reflect.Int64:
		v.SetInt(0x25)
	case reflect.Uint8:
		v.SetUint(0xA5)
	case reflect.Uint16:
		v.SetUint(0xA5A5)
	case reflect.Uint, reflect.Uint32, reflect.Uint64:
		v.SetUint(0xA5A5A5A5)
	case reflect.Float32, reflect.Float64:
		v.SetFloat(165)
	case reflect.String:
		v.SetString("\xa5")
	case reflect.Struct:
		t := v.Type()
		for i := 0; i < t.NumField(); i++ {
			if t.Field(i).PkgPath == "" {
				fillPattern(v.Field(i), depth+1)
			}
		}
	}
}

func genPacketSz(r *rng, kind int, sz int) rtcp.Packet {
	switch kind {
	case kSR:
		return genSR(r, sz)
	case kRR:
		return genRR(r, sz)
	case kSDES:
		return genSDES(r, sz, false)
	case kBYE:
		return genBYE(r, sz)
	case kAPP:
		return genAPP(r, sz)
	case kNACK:
		return genNACK(r, sz)
	case kRRR:
		return &rtcp.RapidResynchronizationRequest{SenderSSRC: r.ssrc(), MediaSSRC: r.ssrc()}
	case kTWCC:
		return genTWCC(r, sz)
	case kCCFB:
		return genCCFB(r, sz)
	case kPLI:
		return &rtcp.PictureLossIndication{SenderSSRC: r.ssrc(), MediaSSRC: r.ssrc()}
	case kSLI:
		return genSLI(r, sz)
	case kREMB:
		return genREMB(r, sz)
	case kFIR:
		return genFIR(r, sz)
	case kXR:
		return genXR(r, sz)
	case kRaw:
		return genRaw(r, sz)
	case kCompound:
		return genCompound(r, sz)
	}
	return nil
}

func genCompound(r *rng, sz int) *rtcp.CompoundPacket {
	var c rtcp.CompoundPacket
	sub := func() int {
		s := r.sizeClass()
		if s == szBad || s == szLarge {
			s = szTypical
		}
		return s
	}
	if sz == szMin {
		if r.chance(2) {
			c = rtcp.CompoundPacket{}
		}
		return &c
	}
	if sz == szBad {
		// violates the compound grammar in one of several ways
		switch r.intn(5) {
		case 4: // a nil member: String prints <nil>, everything else must fail (or panic) the same way everywhere
			c = append(c, genRR(r, sub()), nil, genSDES(r, szTypical, true))
		case 0: // first packet is not a report
			c = append(c, genSDES(r, szTypical, true), genRR(r, sub()))
		case 1: // no CNAME
			c = append(c, genRR(r, sub()), genSDES(r, szTypical, false), genBYE(r, szOne))
		case 2: // no SDES at all
			c = append(c, genSR(r, sub()), genPacketSz(r, kPLI, szOne))
		case 3: // member that fails to marshal
			c = append(c, genRR(r, sub()), genSDES(r, szTypical, true), genBYE(r, szBad))
		}
		return &c
	}
	if r.chance(2) {
		c = append(c, genSR(r, sub()))
	} else {
		c = append(c, genRR(r, sub()))
	}
	if r.chance(4) {
		c = append(c, genRR(r, sub()))
	}
	c = append(c, genSDES(r, szTypical, true))
	n := 0
	switch sz {
	case szTypical:
		n = 1 + r.intn(3)
	case szLarge:
		n = 6 + r.intn(8)
	}
	for i := 0; i < n; i++ {
		k := r.intn(numKinds - 2) // no Raw, no nested compound
		c = append(c, genPacketSz(r, k, sub()))
	}
	if sz != szLarge && r.chance(20) {
		c = append(c, genCompound(r, szTypical)) // a compound inside a compound (it is a Packet, after all)
	}
	if len(c) > 2 && r.chance(10) {
		// the same packet object twice in one compound (legal: e.g. a BYE or a feedback packet repeated)
		c = append(c, c[2+r.intn(len(c)-2)])
	}
	return &c
}

// genList builds a list of packets for rtcp.Marshal([]Packet).
func genList(seed uint64) []rtcp.Packet {
	r := &rng{s: seed ^ 0x1157, narrow: seed&narrowBit != 0}
	n := r.intn(5)
	if r.chance(8) {
		return nil
	}
	out := make([]rtcp.Packet, 0, n)
	for i := 0; i < n; i++ {
		k := r.intn(numKinds)
		if i == 0 && r.chance(4) {
			k = kRaw // unknown packet types travel first in a datagram as often as anywhere else
		}
		sz := r.sizeClass()
		if sz == szLarge {
			sz = szTypical
		}
		if sz == szBad && !r.chance(4) {
			sz = szOne
		}
		out = append(out, genPacketSz(r, k, sz))
	}
	for _, p := range out {
		addSpare(reflect.ValueOf(p), r.fork(), 0)
	}
	if len(out) > 0 && r.chance(10) {
		out = append(out, out[r.intn(len(out))]) // the same packet object twice in the list
	}
	return out
}

// reachesXR reports whether Marshal of p reaches ExtendedReport.Marshal (the
// documented writer of block headers).  Pure type inspection, no rtcp call.
func reachesXR(p rtcp.Packet) bool {
	switch x := p.(type) {
	case *rtcp.ExtendedReport:
		return true
	case *rtcp.CompoundPacket:
		if x == nil {
			return false
		}
		for _, q := range *x {
			if reachesXR(q) {
				return true
			}
		}
	}
	return false
}

func listReachesXR(l []rtcp.Packet) bool {
	for _, p := range l {
		if reachesXR(p) {
			return true
		}
	}
	return false
}
