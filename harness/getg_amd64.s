#include "textflag.h"

// func getg() uintptr
// Returns the address of the running goroutine's g structure (goroutine identity).
TEXT ·getg(SB),NOSPLIT,$0-8
	MOVQ TLS, CX
	MOVQ 0(CX)(TLS*1), AX
	MOVQ AX, ret+0(FP)
	RET
