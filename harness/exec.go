package main

// Executor: runs a RunSpec's programs either under the seeded scheduler
// (concurrent world) or sequentially (reference world).
//
// Task-side code in this file is synchronisation-free (DESIGN §4.4 rule 8):
// no fmt (except where fmt *is* the operation under test), no locks, no
// channels, no pools; results are recorded raw and rendered after the join.
// The only atomics are the mailbox pair of §4.2.

import (
	"bytes"
	"fmt"
	"os"
	"reflect"
	"strconv"
	"sync"
	"sync/atomic"

	"github.com/pion/rtcp"
	hook "github.com/pion/rtcp/zz_simhook"
)

const (
	ptBytes = iota
	ptU32
	ptInt
	ptStr
	ptErr
	ptPanic
	ptDump
	ptSkip
)

// part is one raw component of an operation's result.
type part struct {
	kind int
	b    []byte   // as returned (retained)
	bc   []byte   // copy taken at return
	u    []uint32 // as returned (retained)
	uc   []uint32
	n    int64
	s    string
	err  error
	pan  interface{}
	nilS bool // the returned slice was nil
	// released: the harness is about to edit the object this value may alias (caller-side mutation);
	// the value was verified at that moment and is not compared any more afterwards
	released bool
}

// opResult is the raw record of one executed operation.
type opResult struct {
	done     bool
	skipped  bool
	parts    []part
	modified bool   // O2: physical snapshot of the inputs differed after the operation
	pre      string // kept only when modified
	reused   int    // decodes into a packet object that was decoded into before, compared with a fresh object (receiver reuse)
	incons   bool   // O4 inside one operation: equal octets decoded twice gave different results (pre = fresh buffer, post = reused buffer)
	post     string
	postSem  string // semantic dump of the input object after an XR-reaching Marshal
	outPtr   rtcp.Packet
	outList  []rtcp.Packet
	outDump  string // semantic dump of the produced packet(s) at return (unmasked)
	outDumpM string // masked
	siteHash uint64 // hash of the yield sites this operation passed
	// addresses reachable from the operation's input object, in traversal order (for texts that contain them)
	addrs []uintptr
	// early O5 verdict, taken when the values were released
	changedEarly bool
	earlyExp     string
	earlyAct     string
}

type prov struct {
	kind   int // generator provenance
	list   bool
	seed   uint64
	muts   []uint64
	tweaks []bool // parallel to muts: true = single-leaf tweak, false = whole-value overwrite
	gen    bool
	dec    uint8 // decoder provenance: opUnmTyped / opUnmAll / opUnmCompound
	typ    int
	src    []byte
	idx    int
}

type slotVal struct {
	def    bool
	isB    bool
	isL    bool
	pkt    rtcp.Packet
	b      []byte
	bc     []byte // physical copy (to capacity) taken when the bytes were produced
	l      []rtcp.Packet
	pv     prov
	shared bool
}

type world struct {
	spec    *RunSpec
	slots   []slotVal
	msgs    [maxChans][maxMsgs]slotVal
	word    [maxChans][maxMsgs]uint32
	filled  [maxChans][maxMsgs]bool // reference world only
	res     [][]opResult
	iso     [][]opResult // reference world only
	dirty   [][]uintptr  // per task: pointers of XR packets on which an XR-reaching Marshal was issued
	conc    bool
	planned [maxChans][maxMsgs]bool // a send to this position exists in the (possibly minimised) programs
	fired   [maxTasks]faultCount
	dead    bool
}

type faultCount struct {
	dup, delay, corrupt, recvBlocked, sends int
}

func newWorld(s *RunSpec, conc bool) *world {
	w := &world{spec: s, conc: conc}
	w.slots = make([]slotVal, s.NSlots)
	w.res = make([][]opResult, len(s.Tasks))
	w.dirty = make([][]uintptr, len(s.Tasks))
	if !conc {
		w.iso = make([][]opResult, len(s.Tasks))
	}
	for t := range s.Tasks {
		w.res[t] = make([]opResult, len(s.Tasks[t]))
		if !conc {
			w.iso[t] = make([]opResult, len(s.Tasks[t]))
		}
	}
	for t := range s.Tasks {
		for i := range s.Tasks[t] {
			if op := &s.Tasks[t][i]; op.K == opSend && op.Ch >= 0 && op.Ch < maxChans && op.Idx >= 0 && op.Idx < maxMsgs {
				w.planned[op.Ch][op.Idx] = true
			}
		}
	}
	for _, o := range s.Objects {
		sv := slotVal{def: true, shared: o.Shared, pv: prov{gen: true, kind: o.Kind, list: o.List, seed: o.Seed}}
		if o.List {
			sv.isL = true
			sv.l = genList(o.Seed)
		} else {
			sv.pkt = genPacket(o.Kind, o.Seed)
			for _, tw := range o.Tweaks {
				tweakPacket(sv.pkt, tw)
				sv.pv.muts = append(sv.pv.muts, tw)
				sv.pv.tweaks = append(sv.pv.tweaks, true)
			}
		}
		w.slots[o.Slot] = sv
	}
	return w
}

// kindOf maps a packet to its generator kind; -1 if unknown.
func kindOf(p rtcp.Packet) int {
	switch p.(type) {
	case *rtcp.SenderReport:
		return kSR
	case *rtcp.ReceiverReport:
		return kRR
	case *rtcp.SourceDescription:
		return kSDES
	case *rtcp.Goodbye:
		return kBYE
	case *rtcp.ApplicationDefined:
		return kAPP
	case *rtcp.TransportLayerNack:
		return kNACK
	case *rtcp.RapidResynchronizationRequest:
		return kRRR
	case *rtcp.TransportLayerCC:
		return kTWCC
	case *rtcp.CCFeedbackReport:
		return kCCFB
	case *rtcp.PictureLossIndication:
		return kPLI
	case *rtcp.SliceLossIndication:
		return kSLI
	case *rtcp.ReceiverEstimatedMaximumBitrate:
		return kREMB
	case *rtcp.FullIntraRequest:
		return kFIR
	case *rtcp.ExtendedReport:
		return kXR
	case *rtcp.RawPacket:
		return kRaw
	case *rtcp.CompoundPacket:
		return kCompound
	}
	return -1
}

func newOfKind(k int) rtcp.Packet {
	switch k {
	case kSR:
		return new(rtcp.SenderReport)
	case kRR:
		return new(rtcp.ReceiverReport)
	case kSDES:
		return new(rtcp.SourceDescription)
	case kBYE:
		return new(rtcp.Goodbye)
	case kAPP:
		return new(rtcp.ApplicationDefined)
	case kNACK:
		return new(rtcp.TransportLayerNack)
	case kRRR:
		return new(rtcp.RapidResynchronizationRequest)
	case kTWCC:
		return new(rtcp.TransportLayerCC)
	case kCCFB:
		return new(rtcp.CCFeedbackReport)
	case kPLI:
		return new(rtcp.PictureLossIndication)
	case kSLI:
		return new(rtcp.SliceLossIndication)
	case kREMB:
		return new(rtcp.ReceiverEstimatedMaximumBitrate)
	case kFIR:
		return new(rtcp.FullIntraRequest)
	case kXR:
		return new(rtcp.ExtendedReport)
	case kRaw:
		return new(rtcp.RawPacket)
	case kCompound:
		return new(rtcp.CompoundPacket)
	}
	return new(rtcp.RawPacket)
}

// dispatchKind mirrors the datagram decoder's type dispatch (harness-side, no rtcp call).
func dispatchKind(b []byte) int {
	if len(b) < 2 {
		return kRaw
	}
	fmtv := b[0] & 0x1f
	switch b[1] {
	case 200:
		return kSR
	case 201:
		return kRR
	case 202:
		return kSDES
	case 203:
		return kBYE
	case 204:
		return kAPP
	case 205:
		switch fmtv {
		case 1:
			return kNACK
		case 5:
			return kRRR
		case 15:
			return kTWCC
		case 11:
			return kCCFB
		}
	case 206:
		switch fmtv {
		case 1:
			return kPLI
		case 2:
			return kSLI
		case 15:
			return kREMB
		case 4:
			return kFIR
		}
	case 207:
		return kXR
	}
	return kRaw
}

// ---- operation wrappers: one non-inlined function per operation kind, so that the
// stacks in a race report name the kind.  vop* = verdict-bearing, lop* = load.

//go:noinline
func vopMarshal(p rtcp.Packet) ([]byte, error) { return p.Marshal() }

//go:noinline
func vopMarshalSize(p rtcp.Packet) int { return p.MarshalSize() }

//go:noinline
func vopDestinationSSRC(p rtcp.Packet) []uint32 { return p.DestinationSSRC() }

//go:noinline
func vopString(p fmt.Stringer) string { return p.String() }

//go:noinline
func vopFmtV(p rtcp.Packet) string { return fmt.Sprintf("%v", p) }

//go:noinline
func vopFmtPlusV(p rtcp.Packet) string { return fmt.Sprintf("%+v", p) }

//go:noinline
func vopUnmarshalTyped(p rtcp.Packet, b []byte) error { return p.Unmarshal(b) }

//go:noinline
func vopUnmarshalAll(b []byte) ([]rtcp.Packet, error) { return rtcp.Unmarshal(b) }

//go:noinline
func vopUnmarshalCompound(c *rtcp.CompoundPacket, b []byte) error { return c.Unmarshal(b) }

//go:noinline
func vopMarshalList(l []rtcp.Packet) ([]byte, error) { return rtcp.Marshal(l) }

//go:noinline
func lopHeader(p interface{ Header() rtcp.Header }) rtcp.Header { return p.Header() }

//go:noinline
func lopValidate(c rtcp.CompoundPacket) error { return c.Validate() }

//go:noinline
func lopCNAME(c rtcp.CompoundPacket) (string, error) { return c.CNAME() }

//go:noinline
func lopMarshalTo(p *rtcp.ReceiverEstimatedMaximumBitrate, buf []byte) (int, error) {
	return p.MarshalTo(buf)
}

//go:noinline
func lopBlockDSSRC(b rtcp.ReportBlock) []uint32 { return b.DestinationSSRC() }

func (r *opResult) addBytes(b []byte) {
	p := part{kind: ptBytes, b: b, nilS: b == nil}
	if b != nil {
		full := b[:cap(b)]
		c := make([]byte, len(full))
		copy(c, full)
		p.bc = c[:len(b)]
	}
	r.parts = append(r.parts, p)
}
func (r *opResult) addU32(u []uint32) {
	p := part{kind: ptU32, u: u, nilS: u == nil}
	if u != nil {
		c := make([]uint32, len(u))
		copy(c, u)
		p.uc = c
	}
	r.parts = append(r.parts, p)
}
func (r *opResult) addInt(n int64)         { r.parts = append(r.parts, part{kind: ptInt, n: n}) }
func (r *opResult) addStr(s string)        { r.parts = append(r.parts, part{kind: ptStr, s: s}) }
func (r *opResult) addErr(e error)         { r.parts = append(r.parts, part{kind: ptErr, err: e}) }
func (r *opResult) addDump(s string)       { r.parts = append(r.parts, part{kind: ptDump, s: s}) }
func (r *opResult) addPanic(v interface{}) { r.parts = append(r.parts, part{kind: ptPanic, pan: v}) }

func copyBytesPhys(b []byte) []byte {
	if b == nil {
		return nil
	}
	full := b[:cap(b)]
	c := make([]byte, len(full))
	copy(c, full)
	return c[:len(b)]
}

// guarded runs f and records an escaping panic as the operation's result,
// exactly as an application-level recover would.
func guarded(r *opResult, f func()) {
	defer func() {
		if v := recover(); v != nil {
			r.addPanic(v)
		}
	}()
	f()
}

// snapIn returns the physical snapshot of an operation's inputs.
func snapIn(in *slotVal, mask bool) string {
	switch {
	case in.isB:
		return dumpPhys(in.b, false)
	case in.isL:
		return dumpPhys(in.l, mask)
	default:
		return dumpPhys(in.pkt, mask)
	}
}

func xrPointers(p rtcp.Packet, out []uintptr) []uintptr {
	switch x := p.(type) {
	case *rtcp.ExtendedReport:
		out = append(out, reflect.ValueOf(x).Pointer())
	case *rtcp.CompoundPacket:
		if x != nil {
			for _, q := range *x {
				out = xrPointers(q, out)
			}
		}
	}
	return out
}

// execOp executes one library/harness operation on `in`, returning the raw
// result and the produced slot value (if the operation defines one).
func (w *world) execOp(t int, op *Op, in *slotVal) (res opResult, out slotVal) {
	opHashReset(t, w.conc)
	defer func() { res.siteHash = opHashGet(t, w.conc) }()
	res.done = true
	k := op.K
	switch k {
	case opMarshalSafe:
		if in.def && !in.isB && !in.isL && in.pkt != nil && reachesXR(in.pkt) {
			res.skipped = true
			return
		}
		k = opMarshal
	case opMarshalListS:
		if in.def && in.isL && listReachesXR(in.l) {
			res.skipped = true
			return
		}
		k = opMarshalList
	}
	// input kind checks: an operation whose input is undefined or of the wrong kind is skipped
	switch k {
	case opMarshal, opSize, opDSSRC, opString, opFmtV, opFmtPV, opHeader, opLen, opValidate, opCNAME, opMarshalTo, opBlockDSSRC, opMutate, opVolume:
		if !in.def || in.isB || in.isL || in.pkt == nil || reflect.ValueOf(in.pkt).IsNil() {
			res.skipped = true
			return
		}
	case opUnmTyped, opUnmAll, opUnmCompound, opCorrupt:
		if !in.def || !in.isB {
			res.skipped = true
			return
		}
	case opMarshalList, opPick:
		if !in.def || !in.isL {
			res.skipped = true
			return
		}
	}

	mask := false
	if (k == opMarshal || k == opVolume) && reachesXR(in.pkt) {
		mask = true
	}
	if k == opMarshalList && listReachesXR(in.l) {
		mask = true
	}
	var pre string
	lib := opLibrary(k) && k != opUnit && k != opNack
	if lib {
		pre = snapIn(in, mask)
	}

	switch k {
	case opVolume:
		w.volume(t, op, in, &res)
	case opMarshal:
		p := in.pkt
		guarded(&res, func() {
			b, err := vopMarshal(p)
			res.addBytes(b)
			res.addErr(err)
			out = slotVal{def: true, isB: true, b: b, bc: copyBytesPhys(b)}
		})
		if mask {
			res.postSem = dumpSem(p, false)
			w.dirty[t] = xrPointers(p, w.dirty[t])
		}
	case opMarshalList:
		l := permuteList(in.l, op.N)
		guarded(&res, func() {
			b, err := vopMarshalList(l)
			res.addBytes(b)
			res.addErr(err)
			out = slotVal{def: true, isB: true, b: b, bc: copyBytesPhys(b)}
		})
		if mask {
			res.postSem = dumpSem(l, false)
			for _, p := range l {
				w.dirty[t] = xrPointers(p, w.dirty[t])
			}
		}
	case opSize:
		p := in.pkt
		guarded(&res, func() { res.addInt(int64(vopMarshalSize(p))) })
	case opDSSRC:
		p := in.pkt
		guarded(&res, func() { res.addU32(vopDestinationSSRC(p)) })
	case opString:
		if s, ok := in.pkt.(fmt.Stringer); ok {
			guarded(&res, func() { res.addStr(vopString(s)) })
			res.addrs = collectAddrs(in.pkt)
		} else {
			res.skipped = true
		}
	case opFmtV:
		p := in.pkt
		guarded(&res, func() { res.addStr(vopFmtV(p)) })
		res.addrs = collectAddrs(p)
	case opFmtPV:
		p := in.pkt
		guarded(&res, func() { res.addStr(vopFmtPlusV(p)) })
		res.addrs = collectAddrs(p)
	case opHeader:
		if h, ok := in.pkt.(interface{ Header() rtcp.Header }); ok {
			guarded(&res, func() {
				hd := lopHeader(h)
				res.addDump(dumpSem(hd, false))
			})
		} else {
			res.skipped = true
		}
	case opLen:
		switch x := in.pkt.(type) {
		case *rtcp.CCFeedbackReport:
			guarded(&res, func() { res.addInt(int64(x.Len())) })
		case *rtcp.TransportLayerCC:
			guarded(&res, func() { res.addInt(int64(x.Len())) })
		default:
			res.skipped = true
		}
	case opValidate:
		if c, ok := in.pkt.(*rtcp.CompoundPacket); ok {
			guarded(&res, func() { res.addErr(lopValidate(*c)) })
		} else {
			res.skipped = true
		}
	case opCNAME:
		if c, ok := in.pkt.(*rtcp.CompoundPacket); ok {
			guarded(&res, func() {
				s, err := lopCNAME(*c)
				res.addStr(s)
				res.addErr(err)
			})
		} else {
			res.skipped = true
		}
	case opMarshalTo:
		if p, ok := in.pkt.(*rtcp.ReceiverEstimatedMaximumBitrate); ok {
			n := 20 + 4*len(p.SSRCs)
			if op.Seed%3 == 0 && n > 4 {
				n -= 4 // too small: must fail without writing out of bounds
			}
			buf := make([]byte, n, n+8)
			for i := range buf[:cap(buf)] {
				buf[:cap(buf)][i] = sentinel
			}
			guarded(&res, func() {
				m, err := lopMarshalTo(p, buf)
				res.addInt(int64(m))
				res.addErr(err)
				res.addBytes(buf[:cap(buf)])
			})
		} else {
			res.skipped = true
		}
	case opBlockDSSRC:
		if x, ok := in.pkt.(*rtcp.ExtendedReport); ok {
			guarded(&res, func() {
				for _, b := range x.Reports {
					res.addU32(lopBlockDSSRC(b))
				}
			})
		} else {
			res.skipped = true
		}
	case opUnmTyped:
		b := in.b
		kind := op.N
		if kind < 0 {
			kind = dispatchKind(b)
		}
		p := newOfKind(kind)
		guarded(&res, func() { res.addErr(vopUnmarshalTyped(p, b)) })
		out = slotVal{def: true, pkt: p, pv: prov{dec: opUnmTyped, typ: kind, src: b, idx: -1}}
		res.outPtr = p
		if h := fnvBytes(0xcbf29ce484222325, b); h&1 == 1 && kind >= 0 && kind < len(kindNames) {
			// Receiver reuse (clause c, call histories on one packet): the same octets decoded into an object that held
			// another packet of the kind before - an unrelated one, or the same one - must give a packet that encodes,
			// lists and prints like the one decoded into a fresh object.  (Copies of the octets: what the results
			// alias is not the point here.)
			nparts := len(res.parts)
			var o2, o3 string
			guarded(&res, func() {
				pr, p2 := newOfKind(kind), newOfKind(kind)
				prior := b
				if h&2 == 2 {
					if pe, err := vopMarshal(genPacket(kind, h>>2)); err == nil && len(pe) > 0 {
						prior = pe
					}
				}
				_ = vopUnmarshalTyped(pr, append([]byte(nil), prior...))
				e2 := vopUnmarshalTyped(p2, append([]byte(nil), b...))
				e3 := vopUnmarshalTyped(pr, append([]byte(nil), b...))
				res.reused++
				if e2 == nil && e3 == nil {
					o2, o3 = observe(p2), observe(pr)
				} else {
					o2, o3 = "error == nil: "+boolText(e2 == nil), "error == nil: "+boolText(e3 == nil)
				}
			})
			if len(res.parts) == nparts && o2 != o3 {
				res.incons = true
				res.pre, res.post = kindNames[kind]+" "+hexString(b)+" decoded into a fresh object: "+o2, "decoded into an object that held an earlier packet: "+o3
			}
		}
	case opUnmAll:
		b := in.b
		guarded(&res, func() {
			l, err := vopUnmarshalAll(b)
			res.addErr(err)
			out = slotVal{def: true, isL: true, l: l, pv: prov{dec: opUnmAll, src: b, idx: -1}}
			res.outList = l
		})
		if !out.def {
			out = slotVal{def: true, isL: true, pv: prov{dec: opUnmAll, src: b, idx: -1}}
		}
	case opUnmCompound:
		b := in.b
		c := new(rtcp.CompoundPacket)
		guarded(&res, func() { res.addErr(vopUnmarshalCompound(c, b)) })
		out = slotVal{def: true, pkt: c, pv: prov{dec: opUnmCompound, src: b, idx: -1}}
		res.outPtr = c
	case opUnit:
		guarded(&res, func() { unitOp(&res, op.N, op.Seed) })
	case opNack:
		guarded(&res, func() { nackOp(&res, op.Seed) })
	case opPick:
		if op.N < len(in.l) && in.l[op.N] != nil {
			pv := in.pv
			pv.idx = op.N
			out = slotVal{def: true, pkt: in.l[op.N], pv: pv, shared: in.shared}
		} else {
			res.skipped = true
		}
		return
	case opMutate:
		if !in.pv.gen || in.shared {
			res.skipped = true
			return
		}
		if op.N == 1 {
			// tweak: change exactly one leaf of the value in place (near-twin of what it was)
			tweakPacket(in.pkt, op.Seed)
			in.pv.muts = append(in.pv.muts, op.Seed)
			in.pv.tweaks = append(in.pv.tweaks, true)
			return
		}
		fresh := genPacket(in.pv.kind, op.Seed)
		mutateInto(in.pkt, fresh)
		in.pv.muts = append(in.pv.muts, op.Seed)
		in.pv.tweaks = append(in.pv.tweaks, false)
		return
	case opCorrupt:
		var c []byte
		if op.N == 1 {
			c = repadCopy(in.b, op.Seed)
		} else {
			c = corruptCopy(in.b, op.Seed)
		}
		out = slotVal{def: true, isB: true, b: c, bc: copyBytesPhys(c)}
		w.fired[t].corrupt++
		return
	}

	if lib && !res.skipped {
		post := snapIn(in, mask)
		if pre != post {
			res.modified = true
			res.pre, res.post = pre, post
		}
	}
	if res.outPtr != nil {
		res.outDump = dumpSem(res.outPtr, false)
		res.outDumpM = dumpSem(res.outPtr, true)
	} else if res.outList != nil {
		res.outDump = dumpSem(res.outList, false)
		res.outDumpM = dumpSem(res.outList, true)
	}
	return
}

// permuteList returns a re-ordered selection of l (same packet pointers, fresh slice):
// what a forwarder does when it drops, re-orders or picks packets of a decoded datagram.
func permuteList(l []rtcp.Packet, mode int) []rtcp.Packet {
	n := len(l)
	if n < 2 || mode <= 0 {
		return l
	}
	var out []rtcp.Packet
	switch mode % 4 {
	case 1: // reversed
		for i := n - 1; i >= 0; i-- {
			out = append(out, l[i])
		}
	case 2: // first and last
		out = append(out, l[0], l[n-1])
	case 3: // without the second
		out = append(out, l[0])
		out = append(out, l[2:]...)
	default: // rotated by one
		out = append(out, l[1:]...)
		out = append(out, l[0])
	}
	return out
}

// mutateInto overwrites the exported fields of dst with those of a fresh
// value, the way a caller that recycles a packet struct would.  Unexported
// fields (none on the pinned tree) are left alone on purpose: state the
// library hides there must not survive as stale results.  XR report blocks are
// updated in place where the kind matches, keeping their XRHeader.
func mutateInto(dst, src rtcp.Packet) {
	if xd, ok := dst.(*rtcp.ExtendedReport); ok {
		xs, ok2 := src.(*rtcp.ExtendedReport)
		if !ok2 {
			return
		}
		xd.SenderSSRC = xs.SenderSSRC
		nr := make([]rtcp.ReportBlock, len(xs.Reports))
		for i := range xs.Reports {
			if i < len(xd.Reports) && xd.Reports[i] != nil && xs.Reports[i] != nil && reflect.TypeOf(xd.Reports[i]) == reflect.TypeOf(xs.Reports[i]) &&
				!reflect.ValueOf(xd.Reports[i]).IsNil() && !reflect.ValueOf(xs.Reports[i]).IsNil() {
				copyExported(reflect.ValueOf(xd.Reports[i]).Elem(), reflect.ValueOf(xs.Reports[i]).Elem(), true)
				nr[i] = xd.Reports[i]
			} else {
				nr[i] = xs.Reports[i]
			}
		}
		if xs.Reports == nil {
			nr = nil
		}
		xd.Reports = nr
		return
	}
	dv, sv := reflect.ValueOf(dst), reflect.ValueOf(src)
	if dv.Type() != sv.Type() || dv.Kind() != reflect.Ptr {
		return
	}
	dv, sv = dv.Elem(), sv.Elem()
	if dv.Kind() == reflect.Struct {
		copyExported(dv, sv, false)
	} else {
		dv.Set(sv)
	}
}

func copyExported(dv, sv reflect.Value, keepXRHeader bool) {
	t := dv.Type()
	for i := 0; i < t.NumField(); i++ {
		f := t.Field(i)
		if f.PkgPath != "" {
			continue
		}
		if keepXRHeader && f.Type == xrHeaderType {
			if _, unknown := dv.Addr().Interface().(*rtcp.UnknownReportBlock); unknown {
				// BlockType and TypeSpecific are semantic input of an unknown block
				dh := dv.Field(i)
				sh := sv.Field(i)
				dh.Field(0).Set(sh.Field(0))
				dh.Field(1).Set(sh.Field(1))
			}
			continue
		}
		dv.Field(i).Set(sv.Field(i))
	}
}

// tweakPacket changes exactly one exported leaf of the packet in place (one integer, one flag, one
// character of a text, one octet of a byte slice, one element of a list), chosen by the seed: the
// caller-side edit that turns a value into a near twin of itself.  XRHeader fields are left alone
// (derived state), and lengths never change, so size-related fingerprints stay the same.
// packetLeaves returns the settable exported scalar and string leaves of a packet (at most 64 elements per list; XR
// headers excluded); slices on the way are replaced by fresh copies first (see below).
func packetLeaves(p rtcp.Packet) []reflect.Value {
	var leaves []reflect.Value
	var walk func(v reflect.Value, depth int)
	walk = func(v reflect.Value, depth int) {
		if depth > 20 || !v.IsValid() {
			return
		}
		switch v.Kind() {
		case reflect.Ptr, reflect.Interface:
			if !v.IsNil() {
				walk(v.Elem(), depth+1)
			}
		case reflect.Struct:
			if v.Type() == xrHeaderType {
				return
			}
			t := v.Type()
			for i := 0; i < t.NumField(); i++ {
				if t.Field(i).PkgPath == "" {
					walk(v.Field(i), depth+1)
				}
			}
		case reflect.Slice, reflect.Array:
			if v.Kind() == reflect.Slice && !v.IsNil() && v.CanSet() {
				// copy-on-write: results returned earlier may legitimately alias the old backing array
				// (RawPacket.Marshal, REMB.DestinationSSRC); the caller installs an equal, fresh slice first
				nv := reflect.MakeSlice(v.Type(), v.Len(), v.Len())
				reflect.Copy(nv, v)
				v.Set(nv)
			}
			n := v.Len()
			if n > 64 {
				n = 64
			}
			for i := 0; i < n; i++ {
				walk(v.Index(i), depth+1)
			}
		case reflect.Bool, reflect.Int, reflect.Int8, reflect.Int16, reflect.Int32, reflect.Int64,
			reflect.Uint, reflect.Uint8, reflect.Uint16, reflect.Uint32, reflect.Uint64, reflect.Float32, reflect.String:
			if v.CanSet() {
				leaves = append(leaves, v)
			}
		}
	}
	walk(reflect.ValueOf(p), 0)
	return leaves
}

func tweakPacket(p rtcp.Packet, seed uint64) {
	leaves := packetLeaves(p)
	if len(leaves) == 0 {
		return
	}
	r := &rng{s: seed}
	v := leaves[r.intn(len(leaves))]
	switch v.Kind() {
	case reflect.Bool:
		v.SetBool(!v.Bool())
	case reflect.Int, reflect.Int8, reflect.Int16, reflect.Int32, reflect.Int64:
		v.SetInt(v.Int() ^ 1)
	case reflect.Uint, reflect.Uint8, reflect.Uint16, reflect.Uint32, reflect.Uint64:
		v.SetUint(v.Uint() ^ (1 << uint(r.intn(3))))
	case reflect.Float32:
		v.SetFloat(v.Float() + 1000)
	case reflect.String:
		s := []byte(v.String())
		if len(s) > 0 {
			i := r.intn(len(s))
			if s[i] == 'z' {
				s[i] = 'y'
			} else {
				s[i] = 'z'
			}
			v.SetString(string(s))
		}
	}
}

// withSpare returns a copy of b with `extra` octets of spare capacity filled with the sentinel pattern
// (a window into a larger receive buffer: what lies behind the datagram belongs to somebody else).
func withSpare(b []byte, extra int) []byte {
	c := make([]byte, len(b)+extra)
	copy(c, b)
	for i := len(b); i < len(c); i++ {
		c[i] = sentinel
	}
	return c[:len(b)]
}

// corruptCopy returns a damaged copy of b (truncate / bit flips / splice).
func corruptCopy(b []byte, seed uint64) []byte {
	r := &rng{s: seed}
	c := withSpare(b, r.intn(6))
	if len(c) == 0 {
		return c
	}
	switch r.intn(4) {
	case 0:
		c = c[:r.intn(len(c))]
	case 1:
		for i := 0; i < 1+r.intn(3); i++ {
			c[r.intn(len(c))] ^= 1 << uint(r.intn(8))
		}
	case 2:
		// damage within the first 8 octets (header / first SSRC)
		n := 8
		if len(c) < n {
			n = len(c)
		}
		c[r.intn(n)] = r.u8()
	case 3:
		// splice: overwrite a 4-octet word with a plausible header
		if len(c) >= 8 {
			off := 4 * r.intn(len(c)/4)
			c[off] = 0x80 | byte(r.intn(32))
			c[off+1] = byte(200 + r.intn(8))
			c[off+2] = 0
			c[off+3] = byte(r.intn(4))
		} else {
			c[0] ^= 0xC0
		}
	}
	return c
}

// repadCopy returns a copy of datagram b in which one packet has been given
// RFC 3550 padding (P bit set, 4k pad octets whose last one is the count,
// length field adjusted): what a middlebox or an SRTCP layer may legitimately
// do to a datagram in flight.  Falls back to a plain copy if b does not parse.
func repadCopy(b []byte, seed uint64) []byte {
	r := &rng{s: seed}
	var starts, ends []int
	for off := 0; off+4 <= len(b); {
		n := (int(b[off+2])<<8 | int(b[off+3]) + 1) * 4
		if off+n > len(b) {
			break
		}
		starts = append(starts, off)
		ends = append(ends, off+n)
		off += n
	}
	if len(starts) == 0 || ends[len(ends)-1] != len(b) {
		return withSpare(b, r.intn(5))
	}
	i := len(starts) - 1
	if r.chance(3) {
		i = r.intn(len(starts))
	}
	k := 1 + r.intn(3)
	words := (ends[i]-starts[i])/4 - 1 + k
	if b[starts[i]]&0x20 != 0 || words > 0xFFFF {
		return withSpare(b, r.intn(5))
	}
	c := withSpare(nil, len(b)+4*k+r.intn(5))[:0]
	c = c[:0:cap(c)]
	c = append(c, b[:ends[i]]...)
	for j := 0; j < 4*k-1; j++ {
		c = append(c, r.u8())
	}
	c = append(c, byte(4*k))
	c = append(c, b[ends[i]:]...)
	c[starts[i]] |= 0x20
	c[starts[i]+2] = byte(words >> 8)
	c[starts[i]+3] = byte(words)
	return c
}

// cloneIso rebuilds an isolated, history-free twin of a slot value from its provenance.
func cloneIso(in *slotVal) slotVal {
	if !in.def {
		return slotVal{}
	}
	if in.isB {
		c := copyBytesPhys(in.b)
		return slotVal{def: true, isB: true, b: c, bc: copyBytesPhys(c), shared: in.shared}
	}
	pv := in.pv
	out := slotVal{def: true, shared: in.shared, pv: prov{gen: pv.gen, kind: pv.kind, list: pv.list, seed: pv.seed, dec: pv.dec, typ: pv.typ, idx: pv.idx}}
	if pv.gen {
		if pv.list {
			out.isL = true
			out.l = genList(pv.seed)
			return out
		}
		out.pkt = genPacket(pv.kind, pv.seed)
		for i, m := range pv.muts {
			if i < len(pv.tweaks) && pv.tweaks[i] {
				tweakPacket(out.pkt, m)
			} else {
				mutateInto(out.pkt, genPacket(pv.kind, m))
			}
			out.pv.muts = append(out.pv.muts, m)
			out.pv.tweaks = append(out.pv.tweaks, i < len(pv.tweaks) && pv.tweaks[i])
		}
		return out
	}
	src := copyBytesPhys(pv.src)
	out.pv.src = src
	var l []rtcp.Packet
	var p rtcp.Packet
	func() {
		defer func() { _ = recover() }()
		switch pv.dec {
		case opUnmTyped:
			p = newOfKind(pv.typ)
			_ = p.Unmarshal(src)
		case opUnmCompound:
			c := new(rtcp.CompoundPacket)
			p = c
			_ = c.Unmarshal(src)
		case opUnmAll:
			l, _ = rtcp.Unmarshal(src)
		}
	}()
	if pv.dec == opUnmAll {
		if pv.idx >= 0 {
			if pv.idx < len(l) {
				out.pkt = l[pv.idx]
			} else {
				out.def = false
			}
		} else {
			out.isL = true
			out.l = l
		}
		return out
	}
	out.pkt = p
	return out
}

// collectAddrs lists, in traversal order, the addresses reachable from x through exported fields: the object
// itself, pointees, slice backing arrays.  A text that legitimately mentions one of them (a String() printing
// element pointers, in whatever spelling) is compared with its twin's text after each side's addresses have
// been replaced by their position in this list.  Lock-free reflect only.
func collectAddrs(x interface{}) []uintptr {
	var out []uintptr
	var walk func(v reflect.Value, depth int)
	walk = func(v reflect.Value, depth int) {
		if depth > 60 || !v.IsValid() || len(out) > 4096 {
			return
		}
		switch v.Kind() {
		case reflect.Ptr:
			if !v.IsNil() {
				out = append(out, v.Pointer())
				walk(v.Elem(), depth+1)
			}
		case reflect.Interface:
			if !v.IsNil() {
				walk(v.Elem(), depth+1)
			}
		case reflect.Struct:
			t := v.Type()
			mask := exportedMask[t]
			for i := 0; i < t.NumField(); i++ {
				if (mask != nil && mask[i]) || (mask == nil && t.Field(i).PkgPath == "") {
					walk(v.Field(i), depth+1)
				}
			}
		case reflect.Slice:
			if !v.IsNil() {
				out = append(out, v.Pointer())
				if k := v.Type().Elem().Kind(); k == reflect.Ptr || k == reflect.Interface || k == reflect.Struct || k == reflect.Slice {
					for i := 0; i < v.Len() && i < 512; i++ {
						walk(v.Index(i), depth+1)
					}
				}
			}
		}
	}
	if x != nil {
		walk(reflect.ValueOf(x), 0)
	}
	return out
}

// copyXRHeaders copies every XRHeader found in src into the structurally
// corresponding place of dst.  Block headers are documented state written by
// ExtendedReport.Marshal; a history-free twin used to judge a *non-Marshal*
// operation must carry the same headers as the object it stands in for.
func copyXRHeaders(dst, src reflect.Value, depth int) {
	if depth > 40 || !dst.IsValid() || !src.IsValid() || dst.Type() != src.Type() {
		return
	}
	switch dst.Kind() {
	case reflect.Ptr, reflect.Interface:
		if dst.IsNil() || src.IsNil() {
			return
		}
		copyXRHeaders(dst.Elem(), src.Elem(), depth+1)
	case reflect.Struct:
		if dst.Type() == xrHeaderType {
			if dst.CanSet() {
				dst.Set(src)
			}
			return
		}
		for i := 0; i < dst.NumField(); i++ {
			copyXRHeaders(dst.Field(i), src.Field(i), depth+1)
		}
	case reflect.Slice:
		if dst.Type().Elem().Kind() == reflect.Uint8 {
			return
		}
		n := dst.Len()
		if src.Len() < n {
			n = src.Len()
		}
		for i := 0; i < n; i++ {
			copyXRHeaders(dst.Index(i), src.Index(i), depth+1)
		}
	}
}

func (w *world) label(op *Op, in *slotVal) int32 {
	k := numKinds // bytes / list / none
	if in != nil && in.def && !in.isB && !in.isL && in.pkt != nil {
		if kk := kindOf(in.pkt); kk >= 0 {
			k = kk
		}
	}
	return int32(int(op.K)*(numKinds+1) + k)
}

// releaseResults is called just before the harness edits the object in `slot` on behalf of its owner
// (overwrite / tweak).  Results of earlier operations on that object may legitimately alias it - through a
// slice (REMB.DestinationSSRC, RawPacket.Marshal) or, after a zero-copy change, through a view of one of
// its scalar fields - so they are checked NOW (any change so far is the library's doing) and then released:
// what happens to them afterwards is the caller's doing.
func (w *world) releaseResults(t int, upto int, slot int) {
	prog := w.spec.Tasks[t]
	for j := 0; j < upto && j < len(prog); j++ {
		if prog[j].A != slot {
			continue
		}
		r := &w.res[t][j]
		if !r.done || r.skipped {
			continue
		}
		if b := prog[j].B; b >= 0 && b < len(w.slots) {
			// the buffer this operation produced sits in a slot of its own and is checked at the end of the run too
			if sv := &w.slots[b]; sv.def && sv.isB && sv.b != nil && sv.bc != nil {
				if !bytesEqualCap(sv.b, sv.bc) && !r.changedEarly {
					r.changedEarly, r.earlyExp, r.earlyAct = true, hexString(sv.bc[:cap(sv.bc)]), hexString(sv.b[:cap(sv.b)])
				}
				sv.bc = copyBytesPhys(sv.b) // new baseline: from here on the caller may be the one who changes it
			}
		}
		for pi := range r.parts {
			p := &r.parts[pi]
			if p.released {
				continue
			}
			switch p.kind {
			case ptBytes:
				if p.b != nil && !bytesEqualCap(p.b, p.bc) && !r.changedEarly {
					r.changedEarly, r.earlyExp, r.earlyAct = true, hexString(p.bc[:cap(p.bc)]), hexString(p.b[:cap(p.b)])
				}
				p.released = true
			case ptU32:
				if p.u != nil && !u32Equal(p.u, p.uc) && !r.changedEarly {
					r.changedEarly, r.earlyExp, r.earlyAct = true, u32String(p.uc), u32String(p.u)
				}
				p.released = true
			}
		}
	}
}

func bytesEqualCap(a, b []byte) bool {
	if cap(a) != cap(b) {
		return false
	}
	x, y := a[:cap(a)], b[:cap(b)]
	for i := range x {
		if x[i] != y[i] {
			return false
		}
	}
	return true
}

func u32Equal(a, b []uint32) bool {
	if len(a) != len(b) {
		return false
	}
	for i := range a {
		if a[i] != b[i] {
			return false
		}
	}
	return true
}

func hexString(b []byte) string {
	out := make([]byte, 0, 2*len(b))
	for _, c := range b {
		out = append(out, hexdigits[c>>4], hexdigits[c&15])
	}
	return string(out)
}

func u32String(u []uint32) string {
	out := []byte{'['}
	for i, v := range u {
		if i > 0 {
			out = append(out, ' ')
		}
		out = strconv.AppendUint(out, uint64(v), 10)
	}
	return string(append(out, ']'))
}

func (w *world) sendPlanned(op *Op) bool {
	return op.Ch >= 0 && op.Ch < maxChans && op.Idx >= 0 && op.Idx < maxMsgs && w.planned[op.Ch][op.Idx]
}

var noSlot = slotVal{}

// runTask is the body of one simulated caller thread (concurrent world).
func (w *world) runTask(t int, wg *sync.WaitGroup) {
	defer wg.Done()
	schedStart(t)
	prog := w.spec.Tasks[t]
	for i := range prog {
		op := &prog[i]
		if op.K == opNone || (op.K == opRecv && !w.sendPlanned(op)) {
			// entry disabled by the minimiser, or a recv whose send was removed: no yield, no effect
			w.res[t][i] = opResult{done: true, skipped: true}
			continue
		}
		var in *slotVal = &noSlot
		if op.A >= 0 && op.A < len(w.slots) {
			in = &w.slots[op.A]
		}
		schedBeginOp(t, i)
		schedSetLabel(t, w.label(op, in))
		switch op.K {
		case opSend:
			if op.Ch < maxChans && op.Idx < maxMsgs {
				w.msgs[op.Ch][op.Idx] = *in
				w.msgs[op.Ch][op.Idx].shared = true
				if !in.shared {
					in.shared = true
				}
				atomic.StoreUint32(&w.word[op.Ch][op.Idx], 1) // the sender's half of the mailbox happens-before pair
				w.fired[t].sends++
				if op.N > 0 {
					w.fired[t].delay++
				}
				schedSend(op.Ch, op.Idx, uint64(op.N))
			}
			w.res[t][i] = opResult{done: true}
		case opRecv:
			if !chFilledNow(op.Ch, op.Idx) {
				w.fired[t].recvBlocked++
			}
			ok := schedRecv(t, op.Ch, op.Idx)
			if ok && atomic.LoadUint32(&w.word[op.Ch][op.Idx]) == 1 { // the receiver's half
				if op.B >= 0 {
					w.slots[op.B] = w.msgs[op.Ch][op.Idx]
				}
				w.res[t][i] = opResult{done: true}
			} else {
				w.res[t][i] = opResult{done: true, skipped: true}
			}
		default:
			if op.K == opMutate {
				w.releaseResults(t, i, op.A)
			}
			res, out := w.execOp(t, op, in)
			if op.B >= 0 && out.def {
				w.slots[op.B] = out
			}
			w.res[t][i] = res
		}
		schedOpBoundary(t, -1)
	}
	schedFinish(t)
}

//go:norace
func chFilledNow(ch, idx int) bool { return chFilled[ch][idx] }

// runConcurrent executes the spec under the scheduler.
func runConcurrent(s *RunSpec) *world {
	w := newWorld(s, true)
	n := len(s.Tasks)
	schedReset(n, &s.Sched)
	var wg sync.WaitGroup
	wg.Add(n)
	setActive(true)
	for t := 0; t < n; t++ {
		go w.runTask(t, &wg)
	}
	wg.Wait()
	setActive(false)
	w.dead = getDeadlock()
	return w
}

//go:norace
func setActive(v bool) {
	sActive = v
	hook.Active = v
	if v {
		hook.ResetGates()
	}
}

//go:norace
func getDeadlock() bool { return sDeadlock }

// runReference executes the spec sequentially on a single goroutine with the
// hook inert, computing for every operation both the same-history result
// (res) and the isolated, history-free result (iso).
func runReference(s *RunSpec) *world {
	w := newWorld(s, false)
	n := len(s.Tasks)
	pc := make([]int, n)
	setCounting(true)
	defer setCounting(false)
	for {
		progress := false
		alldone := true
		for t := 0; t < n; t++ {
			prog := s.Tasks[t]
			for pc[t] < len(prog) {
				i := pc[t]
				op := &prog[i]
				var in *slotVal = &noSlot
				if op.A >= 0 && op.A < len(w.slots) {
					in = &w.slots[op.A]
				}
				if op.K == opNone || (op.K == opRecv && !w.sendPlanned(op)) {
					w.res[t][i] = opResult{done: true, skipped: true}
					w.iso[t][i] = opResult{done: true, skipped: true}
					pc[t]++
					progress = true
					continue
				}
				if op.K == opRecv && op.Ch < maxChans && op.Idx < maxMsgs && !w.filled[op.Ch][op.Idx] {
					break
				}
				switch op.K {
				case opSend:
					if op.Ch < maxChans && op.Idx < maxMsgs {
						w.msgs[op.Ch][op.Idx] = *in
						w.msgs[op.Ch][op.Idx].shared = true
						in.shared = true
						w.filled[op.Ch][op.Idx] = true
					}
					w.res[t][i] = opResult{done: true}
					w.iso[t][i] = opResult{done: true}
				case opRecv:
					if op.B >= 0 && op.Ch < maxChans && op.Idx < maxMsgs {
						w.slots[op.B] = w.msgs[op.Ch][op.Idx]
					}
					w.res[t][i] = opResult{done: true}
					w.iso[t][i] = opResult{done: true}
				default:
					// isolated twin first (built from provenance before the operation runs on the historical object)
					if opLibrary(op.K) && in.def {
						isoIn := cloneIso(in)
						if op.K != opMarshal && op.K != opMarshalSafe && op.K != opMarshalList && op.K != opMarshalListS {
							// headers are documented state (filled by an earlier Marshal or by decoding)
							if isoIn.def && !isoIn.isB && !isoIn.isL && isoIn.pkt != nil && reachesXR(in.pkt) {
								copyXRHeaders(reflect.ValueOf(isoIn.pkt), reflect.ValueOf(in.pkt), 0)
							}
						}
						isoOp := *op
						if isoOp.K == opMarshalSafe {
							isoOp.K = opMarshal
						}
						if isoOp.K == opMarshalListS {
							isoOp.K = opMarshalList
						}
						skip := (op.K == opMarshalSafe && !in.isB && !in.isL && in.pkt != nil && reachesXR(in.pkt)) ||
							(op.K == opMarshalListS && in.isL && listReachesXR(in.l))
						if skip {
							w.iso[t][i] = opResult{done: true, skipped: true}
						} else {
							ir, _ := w.execOp(t, &isoOp, &isoIn)
							w.iso[t][i] = ir
						}
					} else {
						ir, _ := w.execOp(t, op, &slotVal{})
						if op.K == opUnit || op.K == opNack {
							ir, _ = w.execOp(t, op, in)
						}
						w.iso[t][i] = ir
					}
					if op.K == opMutate {
						w.releaseResults(t, i, op.A)
					}
					res, out := w.execOp(t, op, in)
					if op.B >= 0 && out.def {
						w.slots[op.B] = out
					}
					w.res[t][i] = res
				}
				pc[t]++
				progress = true
			}
			if pc[t] < len(prog) {
				alldone = false
			}
		}
		if alldone {
			break
		}
		if !progress {
			w.dead = true
			break
		}
	}
	return w
}

var _ = hook.OpOnly

// volume is the body of opVolume: N library calls in a row.  Clause c says it all: what a call returns does not
// depend on the calls before it, however many - a counter that wraps, a table that fills up, an arena that comes
// round, a digest that collides only show after tens of thousands of calls or values.  Three variants (op.Seed % 3):
//
//	0  encode-heavy repetition on the packet and a near twin of it, alternating: every result equals the first of its kind
//	1  decode-heavy repetition of the first encoding; the first decoded packet is kept and must not change
//	2  distinct values: one leaf of a private copy runs through N different values (texts of equal length, consecutive
//	   integers); each value is encoded and decoded; the sum of per-value digests is the result, so the order of the
//	   values must not matter - the history-free twin process of O8 walks them backwards
//
// Nothing is retained but first results and one decoded packet.
func (w *world) volume(t int, op *Op, in *slotVal, res *opResult) {
	n := op.N
	variant := int(op.Seed % 3)
	var twin rtcp.Packet
	if in.pv.gen && !in.shared {
		if tw := cloneIso(in); tw.pkt != nil {
			twin = tw.pkt
		}
	}
	var leaf reflect.Value
	if variant == 2 {
		if twin == nil {
			variant = 0
		} else {
			var wide []reflect.Value
			for _, l := range packetLeaves(twin) {
				switch l.Kind() {
				case reflect.String:
					if l.Len() >= 6 {
						wide = append(wide, l)
					}
				case reflect.Uint32, reflect.Uint64, reflect.Uint16:
					wide = append(wide, l)
				}
			}
			var texts []reflect.Value
			for _, l := range wide {
				if l.Kind() == reflect.String {
					texts = append(texts, l)
				}
			}
			switch {
			case len(wide) == 0:
				variant = 0
			case len(texts) > 0 && (op.Seed/3)%2 == 0:
				leaf = texts[int((op.Seed/6)%uint64(len(texts)))] // texts first, half of the time
			default:
				leaf = wide[int((op.Seed/6)%uint64(len(wide)))]
			}
		}
	}
	if variant != 2 && twin != nil {
		tweakPacket(twin, op.Seed)
	}
	if variant == 2 {
		n *= 4 // distinct values are cheap to make, and digests or table slots collide only among very many
	}
	if raceBuild && n > 24000 {
		n = 24000 + n%1000 // the race build is there for O1; quantities are the plain build's business
	}
	if volumeLog != "" && w.conc {
		lk := "-"
		if leaf.IsValid() {
			lk = leaf.Kind().String()
		}
		if f, err := os.OpenFile(volumeLog, os.O_APPEND|os.O_CREATE|os.O_WRONLY, 0o644); err == nil {
			fmt.Fprintf(f, "%s variant=%d leaf=%s n=%d\n", kindNames[in.pv.kind%len(kindNames)], variant, lk, n)
			f.Close()
		}
	}
	fail := func(what string, it int, exp, act string) {
		if !res.incons {
			res.incons = true
			res.pre, res.post = what+" (first call): "+exp, what+fmt.Sprintf(" (call %d of %d): ", it, n)+act
		}
	}
	yield := func(it int) {
		if w.conc && it&1023 == 1023 {
			schedOpBoundary(t, -1) // let the other tasks in: the calls of several tasks interleave in blocks of 1024
		}
	}
	var kept rtcp.Packet // the first packet decoded in this operation, as returned
	var keptDump string
	var sum uint64

	switch variant {
	case 2:
		base := uint64(0)
		var text []byte
		if leaf.Kind() == reflect.String {
			text = []byte(leaf.String())
		} else {
			base = leaf.Uint()
		}
		guarded(res, func() {
			for k := 0; k < n; k++ {
				it := k
				if volumeBackwards {
					it = n - 1 - k
				}
				if text != nil {
					x := uint64(it)
					for j := len(text) - 1; j >= 0 && j >= len(text)-7; j-- {
						text[j] = "abcdefghijklmnopqrstuvwxyz012345"[x&31]
						x >>= 5
					}
					leaf.SetString(string(text))
				} else {
					leaf.SetUint(base + uint64(it))
				}
				b, err := vopMarshal(twin)
				h := fnvBytes(0xcbf29ce484222325^uint64(it)*0x9E3779B97F4A7C15, b)
				if it&7 == 3 && it < 1<<15 {
					// distinct values pass through the text side as well (a table of labels or names fills up)
					if st, ok := twin.(fmt.Stringer); ok {
						h = fnv(h, stripAddrs(safeString(st)))
					}
				}
				if err != nil {
					h ^= 0x3E44
				} else if len(b) > 0 {
					q := newOfKind(dispatchKind(b))
					derr := vopUnmarshalTyped(q, b)
					h = fnv(h, dumpSem(q, false))
					if derr != nil {
						h ^= 0xDE44
					}
					if kept == nil && it == 0 {
						kept, keptDump = q, dumpSem(q, true)
					}
				}
				sum += h
				yield(k)
			}
		})
		res.addInt(int64(sum))
	case 1:
		var enc []byte
		var first string
		guarded(res, func() {
			b, err := vopMarshal(in.pkt)
			if err != nil || len(b) == 0 {
				return
			}
			enc = append([]byte(nil), b...)
			for it := 0; it < n && !res.incons; it++ {
				q := newOfKind(dispatchKind(enc))
				_ = vopUnmarshalTyped(q, enc)
				d := dumpSem(q, false)
				if it == 0 {
					first, kept, keptDump = d, q, dumpSem(q, true)
				} else if d != first {
					fail("Unmarshal(typed)", it, first, d)
				}
				if it&15 == 15 {
					if b2, err2 := vopMarshal(in.pkt); err2 != nil || !bytes.Equal(b2, enc) {
						fail("Marshal", it, hexString(enc), hexString(b2))
					}
				}
				yield(it)
			}
		})
		res.addBytes(enc)
		res.addDump(first)
	default:
		vals := []rtcp.Packet{in.pkt}
		if twin != nil {
			vals = append(vals, twin)
		}
		type firsts struct {
			enc  []byte
			err  bool
			size int
			ssrc []uint32
			str  string
			dec  string
			have [5]bool
		}
		first := make([]firsts, len(vals))
		guarded(res, func() {
			for it := 0; it < n && !res.incons; it++ {
				vi := it % len(vals)
				p, f := vals[vi], &first[vi]
				switch c := (it / len(vals)) % 16; {
				case c == 3:
					sz := vopMarshalSize(p)
					if !f.have[1] {
						f.size, f.have[1] = sz, true
					} else if sz != f.size {
						fail("MarshalSize", it, fmt.Sprint(f.size), fmt.Sprint(sz))
					}
				case c == 7:
					d := vopDestinationSSRC(p)
					if !f.have[2] {
						f.ssrc, f.have[2] = append([]uint32(nil), d...), true
					} else if !u32Equal(d, f.ssrc) {
						fail("DestinationSSRC", it, u32String(f.ssrc), u32String(d))
					}
				case c == 11 && it < 4096:
					if st, ok := p.(fmt.Stringer); ok {
						s := vopString(st)
						if !f.have[3] {
							f.str, f.have[3] = s, true
						} else if s != f.str && stripAddrs(s) != stripAddrs(f.str) {
							fail("String", it, f.str, s)
						}
					}
				case c == 15 && f.have[0] && !f.err && len(f.enc) > 0:
					q := newOfKind(dispatchKind(f.enc))
					_ = vopUnmarshalTyped(q, f.enc)
					d := dumpSem(q, false)
					if !f.have[4] {
						f.dec, f.have[4] = d, true
						if kept == nil {
							kept, keptDump = q, dumpSem(q, true)
						}
					} else if d != f.dec {
						fail("Unmarshal(typed)", it, f.dec, d)
					}
				default:
					b, err := vopMarshal(p)
					if !f.have[0] {
						f.enc, f.err, f.have[0] = append([]byte(nil), b...), err != nil, true
					} else if (err != nil) != f.err || !bytes.Equal(b, f.enc) {
						fail("Marshal", it, hexString(f.enc), hexString(b))
					}
				}
				yield(it)
			}
		})
		for vi := range first {
			f := &first[vi]
			res.addBytes(f.enc)
			res.addInt(int64(f.size))
			res.addU32(f.ssrc)
			if vi == 0 {
				res.addrs = collectAddrs(in.pkt)
				// (the twin lives inside this operation: a text that prints its addresses cannot be normalised by the
				// comparisons between worlds, which know the addresses of the operation's own object only)
				res.addStr(f.str)
			}
			res.addDump(f.dec)
		}
	}
	if kept != nil && !res.incons {
		if now := dumpSem(kept, true); now != keptDump {
			res.incons = true
			res.pre, res.post = "first packet decoded in this operation, as returned: "+keptDump, fmt.Sprintf("the same packet after %d further calls: ", n)+now
		}
	}
	if reachesXR(in.pkt) {
		res.postSem = dumpSem(in.pkt, false)
		w.dirty[t] = xrPointers(in.pkt, w.dirty[t])
	}
}

// volumeBackwards makes the distinct-values variant of opVolume walk its values in reverse order (set in the
// history-free twin process of O8: the per-value results, hence their sum, must not depend on the order).
var volumeBackwards bool

// volumeLog (development aid, SIM_VOLUME_LOG): file that receives one line per volume operation.
var volumeLog = os.Getenv("SIM_VOLUME_LOG")

func fnvBytes(h uint64, b []byte) uint64 {
	for _, c := range b {
		h ^= uint64(c)
		h *= 0x100000001b3
	}
	return h
}

// safeString is String() for the middle of a volume loop: a String method that panics on an extreme value
// (REMB with a bitrate beyond its unit table does - C17's business) must not end the loop at an iteration that
// depends on the direction the values are walked in (the O8 twin walks them backwards).
func safeString(st fmt.Stringer) (s string) {
	defer func() {
		if recover() != nil {
			s = "<panic>"
		}
	}()
	return vopString(st)
}
