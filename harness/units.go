package main

// Self-contained operations on the exported sub-structures and helpers.

import (
	"fmt"
	"strconv"

	"github.com/pion/rtcp"
)

const numUnits = 13

var unitNames = [...]string{"Header", "ReceptionReport", "SourceDescriptionChunk", "SourceDescriptionItem",
	"RunLengthChunk", "StatusVectorChunk", "RecvDelta", "Chunk", "CCFeedbackReportBlock.String", "enum.String", "raw-decode", "NewCNAMESourceDescription", "receive-loop"}

//go:noinline
func vopUnitMarshal(m interface{ Marshal() ([]byte, error) }) ([]byte, error) { return m.Marshal() }

//go:noinline
func vopUnitUnmarshal(m interface{ Unmarshal([]byte) error }, b []byte) error { return m.Unmarshal(b) }

// roundTrip marshals v (always passed as a pointer, so that the sub-structure's Marshal may have a value
// or a pointer receiver), snapshots it around the call, then decodes the bytes
// (or a damaged copy) into fresh, and records everything.
func roundTrip(res *opResult, r *rng, v interface{ Marshal() ([]byte, error) }, fresh interface{ Unmarshal([]byte) error }) {
	pre := dumpPhys(v, false)
	b, err := vopUnitMarshal(v)
	post := dumpPhys(v, false)
	if pre != post {
		res.modified = true
		res.pre, res.post = pre, post
	}
	res.addBytes(b)
	res.addErr(err)
	in := b
	if err != nil || r.chance(3) {
		in = r.spareBytes(r.intn(24))
	} else if r.chance(4) {
		in = corruptCopy(b, r.u64())
	}
	pre = dumpPhys(in, false)
	err = vopUnitUnmarshal(fresh, in)
	post = dumpPhys(in, false)
	if pre != post {
		res.modified = true
		res.pre, res.post = pre, post
	}
	res.addErr(err)
	res.addDump(dumpSem(fresh, false))
}

func unitOp(res *opResult, kind int, seed uint64) {
	r := &rng{s: seed, narrow: seed&narrowBit != 0}
	switch kind {
	case 0:
		h := rtcp.Header{Padding: r.chance(2), Count: uint8(r.intn(40)), Type: rtcp.PacketType(r.u8()), Length: r.u16()}
		roundTrip(res, r, &h, new(rtcp.Header))
		res.addStr(h.Type.String())
	case 1:
		rr := genReception(r, r.chance(8))
		roundTrip(res, r, &rr, new(rtcp.ReceptionReport))
	case 2:
		ck := genChunk(r, r.sizeClass(), false)
		roundTrip(res, r, &ck, new(rtcp.SourceDescriptionChunk))
	case 3:
		it := genItem(r, r.sizeClass(), false)
		roundTrip(res, r, &it, new(rtcp.SourceDescriptionItem))
		res.addInt(int64(it.Len()))
	case 4:
		c := rtcp.RunLengthChunk{Type: rtcp.TypeTCCRunLengthChunk, PacketStatusSymbol: uint16(r.intn(5)), RunLength: r.u16() & 0x3FFF}
		roundTrip(res, r, &c, new(rtcp.RunLengthChunk))
	case 5:
		c := rtcp.StatusVectorChunk{Type: rtcp.TypeTCCStatusVectorChunk, SymbolSize: uint16(r.intn(2))}
		n := 14
		if c.SymbolSize == rtcp.TypeTCCSymbolSizeTwoBit {
			n = 7
		}
		if r.chance(6) {
			n = r.intn(20)
		}
		for i := 0; i < n; i++ {
			c.SymbolList = append(c.SymbolList, uint16(r.intn(4)))
		}
		roundTrip(res, r, &c, new(rtcp.StatusVectorChunk))
	case 6:
		d := rtcp.RecvDelta{Type: uint16(r.intn(4)), Delta: int64(r.intn(1<<17)-(1<<16)) * rtcp.TypeTCCDeltaScaleFactor}
		if r.chance(4) {
			d.Delta = int64(r.u64())
		}
		roundTrip(res, r, &d, new(rtcp.RecvDelta))
	case 7:
		for i := 0; i < 4; i++ {
			c := rtcp.Chunk(r.u16())
			switch r.intn(8) {
			case 0:
				c = 0 // terminating null
			case 1:
				c = rtcp.Chunk([]uint16{0x8000, 0x7FFF, 0xFFFF, 0x4000, 0x3FFF, 1}[r.intn(6)])
			}
			res.addStr(c.String())
			res.addInt(int64(c.Type()))
			rt, err := c.RunType()
			res.addInt(int64(rt))
			res.addErr(err)
			res.addInt(int64(c.Value()))
		}
	case 8:
		b := genCCFB(r, szOne)
		for _, blk := range b.ReportBlocks {
			res.addStr(blk.String())
		}
	case 9:
		res.addStr(rtcp.PacketType(r.u8()).String())
		res.addStr(rtcp.SDESType(r.intn(12)).String())
		res.addStr(rtcp.BlockTypeType(r.intn(10)).String())
		res.addStr(rtcp.TTLorHopLimitType(r.intn(5)).String())
	case 12:
		// A receive loop: one buffer, refilled in place with successive datagrams and decoded each time, the
		// way a socket reader uses the package.  What a decoder returns may depend on the octets only, not on
		// the identity or the history of the buffer: every datagram is decoded from a fresh copy as well.
		n := 2 + r.intn(3)
		var base rtcp.Packet
		for try := 0; ; try++ {
			// a small value: the loop is about the buffer, and a tree may decode the packets of a datagram in ways
			// whose cost grows quickly with their number
			base = genPacket(r.intn(numKinds), r.u64()|seed&narrowBit)
			if try >= 20 || len(dumpSem(base, false)) < 6000 {
				break
			}
		}
		grams := make([][]byte, 0, n)
		longest := 0
		for i := 0; i < n; i++ {
			var g []byte
			var err error
			guarded(res, func() { g, err = vopUnitMarshal(base) })
			if err != nil || len(g) == 0 || r.chance(6) {
				g = r.spareBytes(4 * (1 + r.intn(12)))
			} else {
				g = append([]byte(nil), g...)
				if r.chance(4) {
					g = corruptCopy(g, r.u64())
				}
			}
			grams = append(grams, g)
			if len(g) > longest {
				longest = len(g)
			}
			tweakPacket(base, r.u64()) // the next datagram is a near twin: same length more often than not
		}
		buf := make([]byte, longest)
		typed := r.chance(3)
		// Receiver reuse (typed decoding only): one packet object per kind is decoded into again and again, the way
		// a receive loop avoids allocations; now and then it has held an unrelated packet of the kind before.  What
		// the object then encodes to, lists and prints may depend on the last datagram only (clause c: every call
		// history on one packet), exactly like a fresh object decoded from the same octets.
		var pr rtcp.Packet
		prKind := -1
		preload := r.u64()
		for gi, g := range grams {
			copy(buf, g)
			in := buf[:len(g):len(g)]
			fresh := append([]byte(nil), g...)
			var d1, d2 string
			var e1, e2 error
			nparts := len(res.parts)
			guarded(res, func() {
				if typed {
					p1, p2 := newOfKind(dispatchKind(in)), newOfKind(dispatchKind(fresh))
					e1 = vopUnmarshalTyped(p1, in)
					d1 = dumpSem(p1, false)
					e2 = vopUnmarshalTyped(p2, fresh)
					d2 = dumpSem(p2, false)
				} else {
					l1, err1 := vopUnmarshalAll(in)
					d1, e1 = dumpSem(l1, false), err1
					l2, err2 := vopUnmarshalAll(fresh)
					d2, e2 = dumpSem(l2, false), err2
				}
			})
			if len(res.parts) != nparts {
				continue // a decoder panicked (recorded): the second decode of the pair never ran
			}
			if typed {
				k := dispatchKind(fresh)
				var e3 error
				var o2, o3 string
				guarded(res, func() {
					if k != prKind {
						pr, prKind = newOfKind(k), k
						if preload>>uint(gi)&1 == 1 {
							if pe, err := vopUnitMarshal(genPacket(k, preload|seed&narrowBit)); err == nil && len(pe) > 0 {
								_ = vopUnmarshalTyped(pr, append([]byte(nil), pe...))
							}
						}
					}
					p2 := newOfKind(k)
					e2b := vopUnmarshalTyped(p2, append([]byte(nil), g...))
					e3 = vopUnmarshalTyped(pr, append([]byte(nil), g...))
					res.reused++
					if e2b == nil && e3 == nil {
						o2, o3 = observe(p2), observe(pr)
					} else {
						o2, o3 = "error == nil: "+boolText(e2b == nil), "error == nil: "+boolText(e3 == nil)
					}
				})
				if len(res.parts) != nparts {
					continue
				}
				if !res.incons && o2 != o3 {
					res.incons = true
					res.pre, res.post = kindNames[k]+" "+hexString(g)+" decoded into a fresh object: "+o2, "decoded into an object that held an earlier packet: "+o3
				}
			}
			res.addDump(d1)
			res.addErr(e1)
			res.addErr(e2) // texts are rendered and compared with the other worlds' after the join
			if !res.incons && (d1 != d2 || (e1 == nil) != (e2 == nil)) {
				res.incons = true
				res.pre, res.post = d2, d1
				if d1 == d2 {
					res.pre, res.post = "error == nil: "+boolText(e2 == nil), "error == nil: "+boolText(e1 == nil)
				}
			}
		}
	case 11:
		// the one constructor of the package: a fresh packet each time, nothing shared between calls
		cname := r.text(r.intn(40))
		a := lopNewCNAME(r.ssrc(), cname)
		b := lopNewCNAME(a.Chunks[0].Source, cname)
		res.addDump(dumpSem(a, false))
		enc, err := vopUnitMarshal(a)
		res.addBytes(enc)
		res.addErr(err)
		// editing one result must not show in the other
		a.Chunks[0].Items[0].Text = "edited"
		a.Chunks[0].Source++
		res.addDump(dumpSem(b, false))
		res.addStr(b.String())
	case 10:
		// arbitrary octets straight into a typed decoder and the datagram decoder
		in := r.spareBytes(r.intn(64))
		if len(in) >= 4 && r.chance(2) {
			in[0] = 0x80 | byte(r.intn(32))
			in[1] = byte(200 + r.intn(8))
			in[2] = 0
			in[3] = byte(len(in)/4 - 1)
		}
		pre := dumpPhys(in, false)
		p := newOfKind(r.intn(numKinds))
		err := vopUnmarshalTyped(p, in)
		res.addErr(err)
		res.addDump(dumpSem(p, false))
		l, err := vopUnmarshalAll(in)
		res.addErr(err)
		res.addDump(dumpSem(l, false))
		if post := dumpPhys(in, false); pre != post {
			res.modified = true
			res.pre, res.post = pre, post
		}
	}
}

func boolText(b bool) string {
	if b {
		return "true"
	}
	return "false"
}

//go:noinline
func lopNewCNAME(ssrc uint32, cname string) *rtcp.SourceDescription {
	return rtcp.NewCNAMESourceDescription(ssrc, cname)
}

//go:noinline
func lopNackPairs(seqs []uint16) []rtcp.NackPair { return rtcp.NackPairsFromSequenceNumbers(seqs) }

func nackOp(res *opResult, seed uint64) {
	r := &rng{s: seed}
	n := r.intn(40)
	seqs := make([]uint16, n, n+r.intn(4))
	base := r.u16()
	for i := range seqs {
		base += uint16(1 + r.intn(6))
		if r.chance(10) {
			base += 40
		}
		seqs[i] = base
	}
	pre := dumpPhys(seqs, false)
	pairs := lopNackPairs(seqs)
	if post := dumpPhys(seqs, false); pre != post {
		res.modified = true
		res.pre, res.post = pre, post
	}
	res.addDump(dumpSem(pairs, false))
	for i := range pairs {
		if i > 3 {
			break
		}
		np := pairs[i]
		l := np.PacketList()
		res.addDump(dumpSem(l, false))
		cnt := 0
		stop := r.intn(18)
		np.Range(func(s uint16) bool {
			cnt++
			res.addInt(int64(s))
			return cnt < stop
		})
		res.addInt(int64(cnt))
	}
	np := rtcp.NackPair{PacketID: r.u16(), LostPackets: rtcp.PacketBitmap(r.u16())}
	res.addDump(dumpSem(np.PacketList(), false))
}

// observe renders what a decoded packet does: its encoding, size, SSRC list and text.
func observe(p rtcp.Packet) string {
	b, err := vopUnitMarshal(p)
	// (no fmt here: its printer pool would order the tasks for the race detector)
	out := "Marshal=" + hexString(b) + " err=" + boolText(err != nil) + " MarshalSize=" + strconv.Itoa(vopMarshalSize(p)) + " DestinationSSRC=" + u32String(vopDestinationSSRC(p))
	if st, ok := p.(fmt.Stringer); ok {
		out += " String=" + stripAddrs(vopString(st))
	}
	return out
}
