package main

// Types shared between the worker (harness) and the coordinator (simctl).
// simctl includes this very file through a symlink; keep it free of imports.

// SwRec is one recorded task switch: task `T`, at the `At`-th counted yield
// inside entry `Op` of its program, handed the token to `To`.  Forced is set
// when T blocked or finished.  Addressing by (Op, At) keeps a switch point
// meaningful when other entries of the program are disabled by the minimiser.
type SwRec struct {
	T      int8   `json:"t"`
	To     int8   `json:"to"`
	Forced bool   `json:"f,omitempty"`
	Op     uint32 `json:"op"`
	At     uint32 `json:"at"`
}

// SchedConfig is the per-run scheduler configuration (a pure function of the run seed).
type SchedConfig struct {
	Strat     int      `json:"strat"`
	Gran      int      `json:"gran"`
	P         uint64   `json:"p,omitempty"`
	Q         uint32   `json:"q,omitempty"`
	Depth     int      `json:"depth,omitempty"`
	EstLen    uint64   `json:"est_len,omitempty"`
	StallT    int      `json:"stall_t,omitempty"`
	StallAt   uint32   `json:"stall_at,omitempty"`
	StallK    int32    `json:"stall_k,omitempty"`
	StallHot  bool     `json:"stall_hot,omitempty"` // freeze only in front of a statement that touches a package-level variable, sync or sync/atomic
	StallMax  int      `json:"stall_max,omitempty"` // number of freezes per run (0: one)
	GCRate    uint64   `json:"gc_rate,omitempty"`
	PoolRate  uint32   `json:"pool_rate,omitempty"`  // one sync.Pool Get in so many finds the pool empty, one Put in so many is dropped (0: never)
	ClockRate uint32   `json:"clock_rate,omitempty"` // mean number of yields between two jumps of the simulated clock (0: it only creeps)
	StepCap   uint64   `json:"step_cap,omitempty"`
	Seed      uint64   `json:"seed"`
	Replay    []SwRec  `json:"replay,omitempty"`
	First     int      `json:"first"`
	Prio      []int32  `json:"prio,omitempty"`
	CP        []uint64 `json:"cp,omitempty"`
}

// Op is one operation of a task's program.
type Op struct {
	K    uint8  `json:"k"`
	A    int    `json:"a"`
	B    int    `json:"b"`
	Ch   int    `json:"ch,omitempty"`
	Idx  int    `json:"idx,omitempty"`
	N    int    `json:"n,omitempty"`
	Seed uint64 `json:"seed,omitempty"`
}

// ObjSpec describes an object that exists before the tasks start: slot i holds object i.
type ObjSpec struct {
	Slot   int    `json:"slot"`
	Kind   int    `json:"kind"`
	Seed   uint64 `json:"seed"`
	List   bool   `json:"list,omitempty"`
	Shared bool   `json:"shared,omitempty"`
	// Tweaks are single-leaf edits applied right after generation: an object with the Seed of an
	// earlier object plus one tweak is a near twin of it (same sizes, same keys, one leaf different).
	Tweaks []uint64 `json:"tweaks,omitempty"`
}

// FaultPlan counts the transport faults planned by the generator (they fire when executed).
type FaultPlan struct {
	Drop, Dup, Delay, Reorder, Corrupt, Burst, BadValue, Repad int
}

// RunSpec is a complete description of one simulated run.
type RunSpec struct {
	Seed    uint64      `json:"seed"`
	Cold    bool        `json:"cold"`
	PreRef  bool        `json:"pre_ref"`
	Mode    string      `json:"mode"`
	Objects []ObjSpec   `json:"objects"`
	NSlots  int         `json:"nslots"`
	Tasks   [][]Op      `json:"tasks"`
	Sched   SchedConfig `json:"sched"`
	Plan    FaultPlan   `json:"plan"`
}

// Violation is one oracle failure.
type Violation struct {
	Oracle   string `json:"oracle"`
	Clause   string `json:"clause"`
	World    string `json:"world"` // concurrent | sequential | isolated | pre-vs-post
	Task     int    `json:"task"`
	OpIdx    int    `json:"op_idx"`
	Op       string `json:"op"`
	Kind     string `json:"kind"`
	Verdict  bool   `json:"verdict_bearing"`
	Expected string `json:"expected"`
	Actual   string `json:"actual"`
	Detail   string `json:"detail"`
}

// Key identifies the class of a violation for minimisation and known-findings matching.
func (v *Violation) Key() string {
	return v.Oracle + "/" + v.Op + "/" + v.Kind
}

type startEv struct {
	Ev    string `json:"ev"`
	Batch uint64 `json:"batch"`
	Run   int    `json:"run"`
	Seed  uint64 `json:"seed"`
	Cold  bool   `json:"cold"`
}

type doneEv struct {
	Ev         string         `json:"ev"`
	Run        int            `json:"run"`
	Seed       uint64         `json:"seed"`
	Cold       bool           `json:"cold"`
	Mode       string         `json:"mode"`
	Tasks      int            `json:"tasks"`
	Ops        int            `json:"ops"`
	LibOps     int            `json:"lib_ops"`
	Skipped    int            `json:"skipped"`
	Steps      uint64         `json:"steps"`
	Switches   uint64         `json:"switches"`
	Inflight   uint64         `json:"inflight"`
	Shared     int            `json:"shared"`
	Strat      string         `json:"strat"`
	Gran       string         `json:"gran"`
	Sig        string         `json:"sig"`
	Nontrivial bool           `json:"nontrivial"`
	Faults     map[string]int `json:"faults"`
	TraceHash  string         `json:"trace_hash"`
	ResHash    string         `json:"res_hash"`
	Divergent  int            `json:"ops_with_divergent_site_trace"`
	Probes     []Violation    `json:"probes,omitempty"`
	Errs       int            `json:"err_results"`
	Panics     int            `json:"panic_results"`
	WallMs     int64          `json:"wall_ms"`
	SimS       float64        `json:"sim_s,omitempty"`
	OpNames    []string       `json:"op_names,omitempty"`
	OpHashes   []string       `json:"op_hashes,omitempty"` // simulated time covered by the concurrent phase (trees that read the clock only)
}

type violEv struct {
	Ev         string      `json:"ev"`
	Run        int         `json:"run"`
	Seed       uint64      `json:"seed"`
	Race       bool        `json:"race"`
	Violations []Violation `json:"violations"`
	Spec       *RunSpec    `json:"spec"`
	Recorded   []SwRec     `json:"recorded"`
	First      int         `json:"first"`
	RecTrunc   bool        `json:"rec_trunc"`
}

type endEv struct {
	Ev       string `json:"ev"`
	Runs     int    `json:"runs"`
	Sites    []int  `json:"sites"`
	Pairs    []int  `json:"pairs"`
	NumSites int    `json:"num_sites"`
	NumLabel int    `json:"num_labels"`
	// digests of the fixed cross-process canary program, keyed "op/kind" (must agree between all workers of a check)
	Canary map[string]string `json:"canary,omitempty"`
	// executed (non-skipped) library operations per operation name and object kind, concurrent world only
	OpCounts map[string]map[string]int `json:"op_counts"`
	OpOnly   bool                      `json:"op_only"`
}

// ReplayFile is the on-disk format of /verif/replays/*.json.
type ReplayFile struct {
	Property     string      `json:"property"`
	VerifSeed    uint64      `json:"verif_seed"`
	Build        string      `json:"build"`
	Reproducible bool        `json:"reproducible"`
	ReproRate    string      `json:"repro_rate,omitempty"`
	Minimised    bool        `json:"minimised"`
	Runs         []*RunSpec  `json:"runs"`
	Violation    []Violation `json:"violation"`
	RaceReport   string      `json:"race_report,omitempty"`
	// O7 (cross-process canary): two worker batches whose canary digests must agree and do not
	CanaryBatches []CanaryBatch `json:"canary_batches,omitempty"`
	CanaryKeys    []string      `json:"canary_keys,omitempty"`
	// Procs: GOMAXPROCS of the worker process that showed the violation (a quarter of the batches run with 2: code
	// may ask runtime.GOMAXPROCS; the simulated schedule does not depend on it)
	Procs int `json:"procs,omitempty"`
	// O8 (history-free twin run): run AloneRun of batch AloneBatch executed after the runs before it, and executed
	// alone in a fresh worker process, must give the same results
	AloneBatch *CanaryBatch `json:"alone_batch,omitempty"`
	AloneRun   int          `json:"alone_run,omitempty"`
	Note       string       `json:"note,omitempty"`
}

// Names of operations (index = Op.K) and of object kinds (index = ObjSpec.Kind).
var opNames = [...]string{"none", "Marshal", "MarshalSafe", "MarshalSize", "DestinationSSRC", "String", "Fmt%v", "Fmt%+v",
	"Unmarshal(typed)", "rtcp.Unmarshal", "Compound.Unmarshal", "rtcp.Marshal", "rtcp.MarshalSafe", "Unit",
	"Header", "Len", "Validate", "CNAME", "MarshalTo", "NackHelpers", "BlockDestinationSSRC",
	"pick", "send", "recv", "mutate", "corrupt", "Volume"}

var kindNames = [...]string{"SenderReport", "ReceiverReport", "SourceDescription", "Goodbye", "ApplicationDefined",
	"TransportLayerNack", "RapidResynchronizationRequest", "TransportLayerCC", "CCFeedbackReport",
	"PictureLossIndication", "SliceLossIndication", "ReceiverEstimatedMaximumBitrate", "FullIntraRequest",
	"ExtendedReport", "RawPacket", "CompoundPacket"}

// CanaryBatch identifies one worker batch of an O7 replay file.
type CanaryBatch struct {
	Seed    uint64 `json:"seed"`
	Runs    int    `json:"runs"`
	Race    bool   `json:"race"`
	Tier    string `json:"tier"`
	NoCold  bool   `json:"nocold,omitempty"`
	ForceOp bool   `json:"forceop,omitempty"`
	Procs   int    `json:"procs,omitempty"`
}
