//go:build amd64

package main

// getg returns the address of the running goroutine's g structure.  It is the
// cheapest goroutine identity there is (one load from thread-local storage) and lets
// the yield hook tell the task that holds the token from goroutines the simulator does
// not own (a finalizer, a timer callback, a goroutine the tree under test started).
func getg() uintptr
