//go:build race

package main

// raceBuild: this worker was built with the race detector (5-10x slower, same results).
const raceBuild = true
