//go:build !amd64

package main

import "runtime"

// getg: portable fallback (slow): parse the goroutine number out of a stack header.
//
//go:norace
func getg() uintptr {
	var buf [64]byte
	n := runtime.Stack(buf[:], false)
	var id uintptr
	for i := len("goroutine "); i < n && buf[i] >= '0' && buf[i] <= '9'; i++ {
		id = id*10 + uintptr(buf[i]-'0')
	}
	return id
}
