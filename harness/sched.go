package main

// Seeded cooperative scheduler.
//
// Exactly one task goroutine runs at a time.  The hand-off between tasks is a
// plain (non-atomic) token variable polled with runtime.Gosched inside
// //go:norace functions.  It therefore creates NO happens-before edge in the
// race detector: two strictly serialised tasks stay unordered for the
// detector, and any conflicting unsynchronised access between tasks is
// reported in every run in which both accesses execute.
//
// Everything in this file that runs while a simulation is active is marked
// //go:norace and touches only fixed-size package variables.

import (
	"runtime"
	"time"

	hook "github.com/pion/rtcp/zz_simhook"
)

const (
	maxTasks   = 8
	maxChans   = 24
	maxMsgs    = 48
	maxPending = 64
	maxSwRec   = 1 << 15
)

const (
	stNone uint8 = iota
	stRunnable
	stBlocked
	stDone
	stFrozen
)

const (
	granStmt = 0
	granFunc = 1
	granOp   = 2
)

const (
	stratRandom = iota
	stratPCT
	stratRR
	stratGlobal
	stratStall
	stratSeq // no voluntary switch (run to block/finish, lowest id next)
	stratReplay
	numStrats = stratStall + 1
)

var stratNames = [...]string{"random", "pct", "rr", "global", "stall", "seq", "replay"}
var granNames = [...]string{"stmt", "func", "op"}

type pendingMsg struct {
	due uint64
	ch  int16
	idx int16
	on  bool
}

var (
	sActive    bool
	sCounting  bool // inert hook counts sites (reference pass)
	sCountN    uint64
	sRefOpHash uint64           // reference pass: hash of the yield sites passed by the current operation
	sOpHash    [maxTasks]uint64 // concurrent phase: same, per task
	sGran      int
	sStrat     int
	sN         int
	sCur       int
	sState     [maxTasks]uint8
	sWaitCh    [maxTasks]int16
	sWaitIdx   [maxTasks]int16
	sLocalY    [maxTasks]uint32
	sCurOp     [maxTasks]uint32 // index of the program entry the task is executing
	sYInOp     [maxTasks]uint32 // counted yields inside that entry (switch points are addressed as (op, y))
	sParkSite  [maxTasks]int32  // site at which the task is parked; -1 = operation boundary
	sOpLabel   [maxTasks]int32  // label of the operation the task is executing
	sOpsDone   [maxTasks]int32
	sRng       uint64
	sStep      uint64
	sStepCap   uint64
	sSwitches  uint64
	sInflight  uint64 // switches away from inside an operation to a task parked inside an operation
	sHash      uint64
	sDeadlock  bool
	sGCRate    uint64
	sGCFired   uint64
	sDelivered uint64
	sLockWaits uint64            // times a task found a lock held by a descheduled task
	sTaskG     [maxTasks]uintptr // goroutine identity of every task
	sForeign   uint64            // hook calls from goroutines the simulator does not own
	sBlkStreak uint64            // lock/channel waits in a row without any statement of the tree in between
	sBlkMask   uint64            // tasks that waited during the streak
	sBlkSince  int64             // real time (ns) at which the streak began
	sPrioFloor int32

	// strategy parameters
	sP                                     uint64 // random: switch with probability 1/sP
	sQ                                     uint32 // rr quantum
	sPrio                                  [maxTasks]int32
	sCP                                    [4]uint64 // PCT change points (steps)
	sNCP                                   int
	sStallT                                int
	sStallAt                               uint32
	sStallK                                int32
	sStallOn                               bool
	sStallHit                              uint64
	sStallMax                              uint64
	sStallGap                              uint32
	sStallHot                              bool
	sTicks                                 uint64 // statements of the instrumented module reached so far (any goroutine)
	sClkRate, sClkRng, sClkLeft, sClkJumps uint64
	sClkStart                              int64
	sPoolRate, sPoolRng, sPoolFaults       uint64
	sMainG                                 uintptr // the goroutine that runs the sequential phases (reference passes, canary)
	sStallBase                             [maxTasks]int32
	siteHot                                []bool
	treeHot                                int // number of yield sites in front of statements that touch shared state (0 on the pinned tree, apart from a few false positives)

	// replay of an explicit switch list (per task queues)
	sRepl    [maxTasks][]SwRec
	sReplPos [maxTasks]int

	// recording
	sRec      [maxSwRec]SwRec
	sRecN     int
	sRecTrunc bool

	// channels
	chFilled [maxChans][maxMsgs]bool
	sPend    [maxPending]pendingMsg
	sPendN   int

	// site metadata (copied from the generated table before the first run)
	siteFuncFirst []bool
	siteGlobal    []bool
	siteHit       []uint32

	// in-flight operation pair coverage: bit (a*numLabels + b)
	pairSeen  []uint64
	numLabels int
)

//go:norace
func rnd() uint64 {
	sRng += 0x9e3779b97f4a7c15
	z := sRng
	z = (z ^ (z >> 30)) * 0xbf58476d1ce4e5b9
	z = (z ^ (z >> 27)) * 0x94d049bb133111eb
	return z ^ (z >> 31)
}

//go:norace
func mixHash(a, b uint64) {
	h := sHash
	h ^= a + 0x9e3779b97f4a7c15 + (h << 6) + (h >> 2)
	h *= 0x100000001b3
	h ^= b + 0x9e3779b97f4a7c15 + (h << 6) + (h >> 2)
	h *= 0x100000001b3
	sHash = h
}

// yieldHook is installed as the instrumented module's Hook.
//
//go:norace
func yieldHook(site int) {
	if site >= 0 {
		sTicks++ // progress, as the watchdog understands it
	}
	cur := sCur // read once: a foreign goroutine may be preempted between the test and the use
	if sActive && (cur < 0 || cur >= maxTasks || getg() != sTaskG[cur]) {
		// Called by a goroutine the simulator does not own (a finalizer, a timer callback, a goroutine
		// started by the tree under test): it is not the task holding the token, so it must neither be
		// scheduled nor touch any per-task state.  It runs under the Go scheduler like in production.
		sForeign++
		if site == -2 || site == -3 {
			runtime.Gosched() // a foreign goroutine waiting in a rewritten lock loop must not monopolise the P
		}
		return
	}
	if !sActive {
		if site == -2 {
			runtime.Gosched() // a rewritten Lock loop outside a run: let the holder (a goroutine of the tree under test) proceed
			return
		}
		if sCounting {
			sCountN++
			sRefOpHash = (sRefOpHash ^ uint64(site+1)) * 0x100000001b3
		}
		return
	}
	if site == -2 || site == -3 {
		// -2: a rewritten Lock loop found the lock taken; -3: the tree under test spins in a wait loop of its own
		// (runtime.Gosched).  In an operation-granular run no task is ever descheduled inside an operation, so
		// whoever is awaited is a goroutine the simulator does not own: yield to the Go scheduler, never to a task.
		if sGran == granOp {
			runtime.Gosched()
			return
		}
		blockedYield(cur, site == -2)
		return
	}
	if site == -4 {
		// an operation on an unbuffered channel of the tree: the cooperative loops cannot model the rendezvous
		if sGran != granOp && unsupportedFn != nil {
			unsupportedFn()
		}
		return
	}
	if site >= 0 {
		sBlkStreak, sBlkMask = 0, 0 // a task executes a statement of the tree: nobody is deadlocked yet
		if site < len(siteHit) {
			siteHit[site]++
		}
		if sGran == granOp {
			// operation-granular run (also the only mode for trees that start goroutines of their own:
			// their goroutines reach this hook too and must not touch any per-task scheduler state)
			return
		}
		sOpHash[cur] = (sOpHash[cur] ^ uint64(site+1)) * 0x100000001b3
		if sGran == granFunc && site < len(siteFuncFirst) && !siteFuncFirst[site] {
			return
		}
	}
	step(cur, site)
}

// blockedYield is reached from a rewritten Lock loop: the lock is held by a task
// that was descheduled inside its critical section, so another task must run.
//
//go:norace
func blockedYield(me int, mustSwitch bool) {
	sStep++
	sLockWaits++
	if mustSwitch {
		// O9 (liveness): every runnable task sits in a rewritten Lock / channel loop and none of them has executed a
		// statement of the tree for half a second of real time and thousands of rounds: each waits for something only
		// another waiting (or finished) task could release.  Judged only where every party is a task (no goroutine
		// of the tree's own, no timer or finalizer has ever reached the hook in this process).
		if sBlkStreak == 0 {
			sBlkSince = time.Now().UnixNano()
		}
		sBlkStreak++
		sBlkMask |= 1 << uint(me)
		if sBlkStreak&1023 == 0 {
			runtime.Gosched() // whoever else there may be gets a turn
			if sBlkStreak >= 8192 && sForeign == 0 && !hook.OpOnly && time.Now().UnixNano()-sBlkSince > 500e6 {
				all := true
				for i := 0; i < sN; i++ {
					if sState[i] == stRunnable && sBlkMask&(1<<uint(i)) == 0 {
						all = false
					}
				}
				if all && sPendN == 0 && deadlockFn != nil {
					deadlockFn(me, sBlkMask)
				}
			}
		}
	}
	mixHash(uint64(me)+5000, sStep)
	if sPendN > 0 {
		deliverDue(false)
	}
	if sStallOn && sState[sStallT] == stFrozen && sStallT != me {
		// the frozen task may be the lock holder
		sState[sStallT] = stRunnable
		sStallOn = false
	}
	var next int
	switch sStrat {
	case stratSeq, stratReplay:
		to, hit := -1, false
		if sStrat == stratReplay {
			to, hit = replayNext(me, true)
		}
		if hit && to >= 0 {
			next = to
		} else {
			// round-robin from me so that every other task gets its turn while we wait
			next = -1
			for i := 1; i < sN; i++ {
				j := (me + i) % sN
				if sState[j] == stRunnable {
					next = j
					break
				}
			}
		}
	case stratPCT:
		// waiting on a lock with top priority would spin forever: drop below everyone
		sPrioFloor--
		sPrio[me] = sPrioFloor
		next = highestPrio(false, me)
	default:
		next = runnableOther(me)
	}
	if next < 0 {
		if sPendN > 0 {
			deliverDue(true)
			return
		}
		// Nobody else can run.  The lock (or whatever is awaited) may be held by a goroutine the simulator does not
		// own - a timer callback, a finalizer, a goroutine of the tree under test - which will release it when the
		// Go scheduler lets it run; a genuine deadlock of the tree under test ends at the run watchdog.
		_ = mustSwitch
		runtime.Gosched()
		return
	}
	if sBlkStreak < 512 {
		recordSwitch(me, next, true) // (a replay falls back to round-robin when the record ends: waiting tasks stay waiting)
	}
	sSwitches++
	setCur(next)
	for sCur != me {
		runtime.Gosched()
	}
}

// deadlockFn reports a deadlock among the tasks and ends the process (set by main).
var deadlockFn func(me int, mask uint64)

// unsupportedFn ends a statement-granular worker that met a construct the simulator cannot schedule inside (exit 5:
// the coordinator repeats the batch operation-granular).
var unsupportedFn func()

// The simulated clock is the real clock plus hook.ClockOffset; in runs that ask for it the offset jumps forward
// by anything between a millisecond and three days (code that walks a window second by second is legitimate: a month would cost it millions of iterations) at points chosen by a generator of its own (a pure function of the
// run seed and the number of yields so far).  It never goes back: the tree's time.Since would not see that either.
var clockJumps = [...]int64{1e6, 1e6, 50e6, 50e6, 1e9, 1e9, 10e9, 61e9, 61e9, 600e9, 3600e9, 25 * 3600e9, 3 * 24 * 3600e9}

// simHorizon: no jumps once the simulated clock is a century ahead of the real one (int64 nanoseconds end in 2262).
const simHorizon = int64(100 * 365 * 24 * 3600e9)

// progressTicks is read by the watchdog goroutine (plain variable, invisible to the race detector like the rest of
// the scheduler state).
//
//go:norace
func progressTicks() uint64 { return sTicks }

//go:norace
func clkRnd() uint64 {
	sClkRng += 0x9e3779b97f4a7c15
	z := sClkRng
	z = (z ^ (z >> 30)) * 0xbf58476d1ce4e5b9
	z = (z ^ (z >> 27)) * 0x94d049bb133111eb
	return z ^ (z >> 31)
}

// poolFaultHook is the seeded coin behind the pool-miss fault (tasks only; a generator of its own, so that the
// decisions are a function of the run seed and the number of pool operations so far).
//
//go:norace
func poolFaultHook() bool {
	if sPoolRate == 0 || !isTaskHook() {
		return false
	}
	sPoolRng += 0x9e3779b97f4a7c15
	z := sPoolRng
	z = (z ^ (z >> 30)) * 0xbf58476d1ce4e5b9
	z = (z ^ (z >> 27)) * 0x94d049bb133111eb
	if (z^(z>>31))%sPoolRate == 0 {
		sPoolFaults++
		return true
	}
	return false
}

// isTaskHook reports whether the caller is the simulated task that holds the token.
//
//go:norace
func isTaskHook() bool {
	cur := sCur
	return sActive && cur >= 0 && cur < maxTasks && getg() == sTaskG[cur]
}

// sleepHook is the tree's time.Sleep: for the task that holds the token simulated time passes (bounded like the
// jumps) and somebody else gets to run; any other goroutine is told to sleep for real.
//
//go:norace
func sleepHook(d time.Duration) bool {
	cur := sCur
	me := getg()
	if !sActive {
		if me != sMainG {
			return false
		}
	} else if cur < 0 || cur >= maxTasks || me != sTaskG[cur] {
		return false
	}
	if d > 0 && hook.ClockOffset < simHorizon {
		if d > time.Duration(clockJumps[len(clockJumps)-1]) {
			d = time.Duration(clockJumps[len(clockJumps)-1])
		}
		hook.ClockOffset += int64(d)
	}
	if sActive {
		yieldHook(-3)
	}
	return true
}

// nextClockJump: a multiple (1/2, 1, 3/2, 3, 10 or 100 times) of one of the durations the tree's own source mentions
// (N * time.Second and the like, collected by the instrumenter) - the clock moves on the scale the code looks at, so
// a window kept in milliseconds is not asked to catch up with days - or, if the source mentions none, one of a
// fixed list up to an hour.
//
//go:norace
func nextClockJump() int64 {
	if n := uint64(len(hook.ClockScales)); n > 0 {
		sc := hook.ClockScales[clkRnd()%n]
		j := sc / 2 * int64([...]int{1, 2, 3, 6, 20, 200}[clkRnd()%6])
		if j < 1000 {
			j = 1000
		}
		if j > clockJumps[len(clockJumps)-1] {
			j = clockJumps[len(clockJumps)-1]
		}
		return j
	}
	return clockJumps[clkRnd()%uint64(len(clockJumps)-2)]
}

//go:norace
func clockTick() {
	if sClkRate > 0 {
		sClkLeft--
		if sClkLeft == 0 {
			// at most eight jumps per run: code whose work is proportional to the time that has passed (a window
			// advanced second by second) must be able to catch up with the clock
			if hook.ClockOffset < simHorizon && sClkJumps < 8 {
				hook.ClockOffset += nextClockJump()
				sClkJumps++
			}
			sClkLeft = 1 + clkRnd()%(2*sClkRate)
		}
	}
}

//go:norace
func step(me int, site int) {
	sStep++
	clockTick()
	sLocalY[me]++
	sYInOp[me]++
	mixHash(uint64(me), uint64(int64(site)))
	if sPendN > 0 {
		deliverDue(false)
	}
	if sStallOn {
		stallCheck()
	}
	if sGCRate != 0 && sGCFired < 48 && rnd()%sGCRate == 0 { // a forced collection costs milliseconds: bounded per run
		sGCFired++
		runtime.GC()
	}
	next := decide(me, site)
	if next != me {
		switchTo(me, next, site, false)
	}
}

//go:norace
func runnableOther(me int) int {
	// random runnable task other than me; -1 if none
	var cand [maxTasks]int
	n := 0
	for i := 0; i < sN; i++ {
		if i != me && sState[i] == stRunnable {
			cand[n] = i
			n++
		}
	}
	if n == 0 {
		return -1
	}
	return cand[rnd()%uint64(n)]
}

//go:norace
func lowestRunnable(me int) int {
	for i := 0; i < sN; i++ {
		if i != me && sState[i] == stRunnable {
			return i
		}
	}
	return -1
}

//go:norace
func highestPrio(includeMe bool, me int) int {
	best := -1
	for i := 0; i < sN; i++ {
		if sState[i] != stRunnable {
			continue
		}
		if i == me && !includeMe {
			continue
		}
		if best < 0 || sPrio[i] > sPrio[best] {
			best = i
		}
	}
	return best
}

//go:norace
func replayNext(me int, forced bool) (int, bool) {
	q := sRepl[me]
	p := sReplPos[me]
	for p < len(q) && (q[p].Op < sCurOp[me] || (q[p].Op == sCurOp[me] && q[p].At < sYInOp[me])) {
		p++
	}
	sReplPos[me] = p
	if p < len(q) && q[p].Op == sCurOp[me] && q[p].At == sYInOp[me] && q[p].Forced == forced {
		sReplPos[me] = p + 1
		to := int(q[p].To)
		if to >= 0 && to < sN && to != me && sState[to] == stRunnable {
			return to, true
		}
		return -1, true
	}
	return -1, false
}

// decide returns the task that runs after this voluntary yield.
//
//go:norace
func decide(me int, site int) int {
	if sStep > sStepCap {
		return me
	}
	switch sStrat {
	case stratSeq:
		return me
	case stratReplay:
		to, hit := replayNext(me, false)
		if hit && to >= 0 {
			return to
		}
		return me
	case stratRandom, stratStall:
		if sStrat == stratStall && !sStallOn && site >= 0 && sStallHit < sStallMax {
			freeze := false
			if sStallHot {
				// any task, in front of a statement that touches shared state: the window in which everybody else
				// sees the first half of an update stays open until the others have done sStallK operations each
				freeze = site < len(siteHot) && siteHot[site] && sStep >= uint64(sStallAt) && rnd()%3 == 0
			} else {
				freeze = me == sStallT && sLocalY[me] >= sStallAt
			}
			if freeze {
				// freeze this task in the middle of an operation
				if o := runnableOther(me); o >= 0 {
					sStallOn = true
					sStallHit++
					sStallT = me
					sStallAt = sLocalY[me] + sStallGap
					for i := 0; i < sN; i++ {
						sStallBase[i] = sOpsDone[i]
					}
					sState[me] = stFrozen
					return o
				}
			}
		}
		if rnd()%sP == 0 {
			if o := runnableOther(me); o >= 0 {
				return o
			}
		}
		return me
	case stratGlobal:
		p := sP
		if site >= 0 && site < len(siteGlobal) && siteGlobal[site] {
			p = 2
		}
		if rnd()%p == 0 {
			if o := runnableOther(me); o >= 0 {
				return o
			}
		}
		return me
	case stratRR:
		if sLocalY[me]%sQ == 0 {
			for i := 1; i < sN; i++ {
				j := (me + i) % sN
				if sState[j] == stRunnable {
					return j
				}
			}
		}
		return me
	case stratPCT:
		for i := 0; i < sNCP; i++ {
			if sCP[i] == sStep {
				sPrio[me] = int32(-1 - i) // below every initial priority
			}
		}
		if b := highestPrio(true, me); b >= 0 {
			return b
		}
		return me
	}
	return me
}

//go:norace
func stallCheck() {
	// release the frozen task once every other task has finished sStallK operations or cannot run
	for i := 0; i < sN; i++ {
		if i == sStallT {
			continue
		}
		if sState[i] == stRunnable && sOpsDone[i]-sStallBase[i] < sStallK {
			return
		}
	}
	if sState[sStallT] == stFrozen {
		sState[sStallT] = stRunnable
	}
	sStallOn = false
}

//go:norace
func recordSwitch(me, next int, forced bool) {
	if sRecN < maxSwRec {
		sRec[sRecN] = SwRec{T: int8(me), To: int8(next), Forced: forced, Op: sCurOp[me], At: sYInOp[me]}
		sRecN++
	} else {
		sRecTrunc = true
	}
}

//go:norace
func switchTo(me, next int, site int, forced bool) {
	recordSwitch(me, next, forced)
	sSwitches++
	mixHash(uint64(next)+1000, sSwitches)
	if site >= 0 && sParkSite[next] >= 0 {
		sInflight++
		a, b := int(sOpLabel[me]), int(sOpLabel[next])
		if a >= 0 && b >= 0 && a < numLabels && b < numLabels {
			bit := a*numLabels + b
			pairSeen[bit>>6] |= 1 << (uint(bit) & 63)
		}
	}
	sParkSite[me] = int32(site)
	setCur(next)
	for sCur != me {
		runtime.Gosched()
	}
}

// pickForced chooses who runs when `me` cannot continue (blocked or done).
//
//go:norace
func pickForced(me int) int {
	for {
		next := -1
		switch sStrat {
		case stratSeq:
			next = lowestRunnable(me)
		case stratReplay:
			to, hit := replayNext(me, true)
			if hit && to >= 0 {
				next = to
			} else {
				next = lowestRunnable(me)
			}
		case stratPCT:
			next = highestPrio(false, me)
		default:
			next = runnableOther(me)
		}
		if next >= 0 {
			return next
		}
		// nobody runnable: release a frozen task, or advance simulated delivery
		if sStallOn && sState[sStallT] == stFrozen {
			sState[sStallT] = stRunnable
			sStallOn = false
			continue
		}
		if sPendN > 0 {
			deliverDue(true)
			if sState[me] == stRunnable {
				return me
			}
			continue
		}
		return -1
	}
}

// schedStart parks the calling task until it is given the token.
//
//go:norace
func schedStart(me int) {
	sTaskG[me] = getg()
	for sCur != me {
		runtime.Gosched()
	}
}

// schedOpBoundary is a yield point between two harness-level operations.
//
//go:norace
func schedOpBoundary(me int, label int32) {
	sOpsDone[me]++
	sOpLabel[me] = label
	step(me, -1)
}

//go:norace
func schedSetLabel(me int, label int32) {
	sOpLabel[me] = label
}

// schedBeginOp tells the scheduler that task me starts program entry i.
//
//go:norace
func schedBeginOp(me int, i int) {
	sCurOp[me] = uint32(i)
	sYInOp[me] = 0
}

// schedFinish marks the task done and hands the token on.
//
//go:norace
func schedFinish(me int) {
	sState[me] = stDone
	sParkSite[me] = -1
	next := pickForced(me)
	if next < 0 {
		// all done, or deadlock among blocked tasks
		for i := 0; i < sN; i++ {
			if sState[i] == stBlocked {
				sDeadlock = true
				sState[i] = stRunnable
				recordSwitch(me, i, true)
				setCur(i)
				return
			}
		}
		setCur(-1)
		return
	}
	recordSwitch(me, next, true)
	sSwitches++
	setCur(next)
}

// schedSend publishes message (ch, idx) after `delay` further steps.
//
//go:norace
func schedSend(ch, idx int, delay uint64) {
	if delay == 0 || sPendN >= maxPending {
		fill(ch, idx)
		return
	}
	for i := 0; i < maxPending; i++ {
		if !sPend[i].on {
			sPend[i] = pendingMsg{due: sStep + delay, ch: int16(ch), idx: int16(idx), on: true}
			sPendN++
			return
		}
	}
	fill(ch, idx)
}

//go:norace
func fill(ch, idx int) {
	chFilled[ch][idx] = true
	sDelivered++
	for i := 0; i < sN; i++ {
		if sState[i] == stBlocked && int(sWaitCh[i]) == ch && int(sWaitIdx[i]) == idx {
			sState[i] = stRunnable
		}
	}
}

//go:norace
func deliverDue(force bool) {
	// deliver every due message; with force, the earliest pending one regardless of time
	if force {
		best := -1
		for i := 0; i < maxPending; i++ {
			if sPend[i].on && (best < 0 || sPend[i].due < sPend[best].due) {
				best = i
			}
		}
		if best >= 0 {
			if sPend[best].due > sStep {
				sStep = sPend[best].due // jump simulated step clock
			}
		}
	}
	for i := 0; i < maxPending; i++ {
		if sPend[i].on && sPend[i].due <= sStep {
			sPend[i].on = false
			sPendN--
			fill(int(sPend[i].ch), int(sPend[i].idx))
		}
	}
}

// schedRecv blocks the calling task until message (ch, idx) is delivered.
// It returns false if the simulation deadlocked.
//
//go:norace
func schedRecv(me int, ch, idx int) bool {
	for !chFilled[ch][idx] {
		if sDeadlock {
			return false
		}
		sState[me] = stBlocked
		sWaitCh[me] = int16(ch)
		sWaitIdx[me] = int16(idx)
		sParkSite[me] = -1
		next := pickForced(me)
		if next == me {
			continue
		}
		if next < 0 {
			sDeadlock = true
			sState[me] = stRunnable
			return false
		}
		recordSwitch(me, next, true)
		sSwitches++
		setCur(next)
		for sCur != me {
			runtime.Gosched()
		}
	}
	sState[me] = stRunnable
	return true
}

// schedReset prepares the scheduler for a run with n tasks.  Called by the
// coordinator goroutine before the tasks are created.
//
//go:norace
func schedReset(n int, c *SchedConfig) {
	sN = n
	sGran = c.Gran
	sStrat = c.Strat
	sRng = c.Seed
	sStep, sSwitches, sInflight, sHash = 0, 0, 0, 0xcbf29ce484222325
	sDeadlock = false
	sGCRate = c.GCRate
	sGCFired = 0
	sPoolRate, sPoolRng, sPoolFaults = uint64(c.PoolRate), c.Seed^0x9001, 0
	sClkRate, sClkRng, sClkJumps = uint64(c.ClockRate), c.Seed^0xC10C, 0
	sClkStart = hook.ClockOffset
	if sClkRate > 0 {
		sClkLeft = 1 + clkRnd()%(2*sClkRate)
	}
	sDelivered = 0
	sLockWaits = 0
	sForeign = 0
	sPrioFloor = -100
	for i := range sTaskG {
		sTaskG[i] = 0
	}
	sStepCap = c.StepCap
	if sStepCap == 0 {
		sStepCap = 400000
	}
	sP = c.P
	if sP == 0 {
		sP = 32
	}
	sQ = c.Q
	if sQ == 0 {
		sQ = 1
	}
	for i := 0; i < maxTasks; i++ {
		sState[i] = stNone
		sLocalY[i] = 0
		sCurOp[i] = 0
		sYInOp[i] = 0
		sParkSite[i] = -1
		sOpLabel[i] = -1
		sOpsDone[i] = 0
		sPrio[i] = 0
		sRepl[i] = nil
		sReplPos[i] = 0
	}
	for i := 0; i < n; i++ {
		sState[i] = stRunnable
	}
	for i := range sPend {
		sPend[i].on = false
	}
	sPendN = 0
	for c := 0; c < maxChans; c++ {
		for m := 0; m < maxMsgs; m++ {
			chFilled[c][m] = false
		}
	}
	sRecN = 0
	sRecTrunc = false
	sStallOn = false
	sStallHit = 0
	sStallT, sStallAt, sStallK = c.StallT, c.StallAt, c.StallK
	sStallHot, sStallMax, sStallGap = c.StallHot, uint64(c.StallMax), c.StallAt/2+1
	if sStallMax == 0 {
		sStallMax = 1
	}
	sNCP = 0
	if c.Strat == stratPCT {
		for i := 0; i < n && i < len(c.Prio); i++ {
			sPrio[i] = c.Prio[i]
		}
		for i := 0; i < len(c.CP) && i < len(sCP); i++ {
			sCP[i] = c.CP[i]
			sNCP++
		}
	}
	if c.Strat == stratReplay {
		for _, r := range c.Replay {
			if int(r.T) >= 0 && int(r.T) < maxTasks {
				sRepl[r.T] = append(sRepl[r.T], r)
			}
		}
	}
	setCur(c.First)
	if sCur < 0 || sCur >= n {
		setCur(0)
	}
	if c.Strat == stratPCT {
		if b := highestPrio(true, 0); b >= 0 {
			setCur(b)
		}
	}
	sFirst = sCur
}

//go:norace
func opHashReset(me int, conc bool) {
	if conc {
		sOpHash[me] = 0
	} else {
		sRefOpHash = 0
	}
}

//go:norace
func opHashGet(me int, conc bool) uint64 {
	if conc {
		return sOpHash[me]
	}
	return sRefOpHash
}

//go:norace
func setCounting(v bool) { sCounting = v }

// setCur hands the token to task n (and tells the generated hook package, whose Once gates are owned by tasks).
//
//go:norace
func setCur(n int) {
	sCur = n
	hook.CurTask = n
}
