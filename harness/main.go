package main

// Worker process of the C18 simulation.  One process executes a batch of runs
// (first one cold) and reports one JSON object per line on stdout.

import (
	"encoding/json"
	"flag"
	"fmt"
	"os"
	"runtime"
	"runtime/debug"
	"runtime/pprof"
	"sort"
	"strconv"
	"strings"
	"sync/atomic"
	"time"

	hook "github.com/pion/rtcp/zz_simhook"
)

var out = json.NewEncoder(os.Stdout)

// hotKinds / hotUnits: result of the calibration pass of this build (bit k set: packets of kind k, resp. unit
// operation k, reach a statement that touches shared state).  Zero on a tree without such statements.
var hotKinds, hotUnits uint64

var calHits int

// clockOffset0: where the simulated clock of this process starts, relative to the real one.
var clockOffset0 int64

// wantOpHashes: every done event carries one digest per operation (used to locate an O8 difference).
var wantOpHashes bool

// calibrate runs every operation once or twice on a few values of every kind, sequentially, and prints which kinds
// reach "hot" statements.  It runs in a process of its own: nothing of what it warms up is seen by any run.
func calibrate() {
	hook.Hook = func(site int) {
		if site >= 0 && site < len(siteHot) && siteHot[site] {
			calHits++
		}
	}
	var kinds, units uint64
	try := func(f func()) bool {
		calHits = 0
		func() {
			defer func() { _ = recover() }()
			f()
		}()
		return calHits > 0
	}
	for k := 0; k < numKinds; k++ {
		for i := uint64(1); i <= 8; i++ {
			if try(func() {
				p := genPacket(k, i*0x9E3779B97F4A7C15)
				b, _ := p.Marshal()
				_ = p.MarshalSize()
				_ = p.DestinationSSRC()
				if st, ok := p.(fmt.Stringer); ok {
					_ = st.String()
				}
				if len(b) > 0 {
					_ = newOfKind(k).Unmarshal(b)
					_, _ = vopUnmarshalAll(b)
				}
			}) {
				kinds |= 1 << uint(k)
			}
		}
	}
	for u := 0; u < numUnits; u++ {
		for i := uint64(1); i <= 4; i++ {
			if try(func() {
				var res opResult
				unitOp(&res, u, i*0x9E3779B97F4A7C15)
			}) {
				units |= 1 << uint(u)
			}
		}
	}
	fmt.Printf("%x:%x\n", kinds, units)
}

func emit(v interface{}) {
	if err := out.Encode(v); err != nil {
		fmt.Fprintln(os.Stderr, "emit:", err)
		os.Exit(2)
	}
}

func raceLogSize(path string) int64 {
	if path == "" {
		return 0
	}
	st, err := os.Stat(fmt.Sprintf("%s.%d", path, os.Getpid()))
	if err != nil {
		return 0
	}
	return st.Size()
}

//go:norace
func installHook() {
	n := len(hook.Sites)
	siteFuncFirst = make([]bool, n)
	siteGlobal = make([]bool, n)
	siteHot = make([]bool, n)
	treeHot = 0
	siteHit = make([]uint32, n)
	for i := range hook.Sites {
		siteFuncFirst[i] = hook.Sites[i].FuncFirst
		siteGlobal[i] = hook.Sites[i].Global
		siteHot[i] = hook.Sites[i].Hot
		if siteHot[i] {
			treeHot++
		}
	}
	numLabels = int(numOps) * (numKinds + 1)
	pairSeen = make([]uint64, (numLabels*numLabels+63)/64)
	hook.ClockOffset = clockOffset0
	sMainG = getg()
	hook.SleepFunc = sleepHook
	hook.IsTask = isTaskHook
	hook.PoolFault = poolFaultHook
	hook.Hook = yieldHook
}

//go:norace
func lockWaits() uint64 { return sLockWaits }

//go:norace
func foreignCalls() uint64 { return sForeign }

//go:norace
func schedStats() (steps, switches, inflight, hash, gc, delivered uint64, rec []SwRec, trunc bool, stall uint64) {
	rec = make([]SwRec, sRecN)
	copy(rec, sRec[:sRecN])
	return sStep, sSwitches, sInflight, sHash, sGCFired, sDelivered, rec, sRecTrunc, sStallHit
}

//go:norace
func firstTask() int { return sFirst }

var sFirst int

func sigOf(s *RunSpec, rec []SwRec) uint64 {
	h := uint64(0xcbf29ce484222325)
	mix := func(x uint64) {
		h ^= x
		h *= 0x100000001b3
	}
	for t, p := range s.Tasks {
		mix(uint64(t) + 7777)
		for _, op := range p {
			mix(uint64(op.K))
			mix(uint64(int64(op.A)))
			mix(uint64(int64(op.B)))
			mix(uint64(op.Ch)<<20 | uint64(op.Idx)<<8 | uint64(op.N&0xff))
			mix(op.Seed)
		}
	}
	for _, o := range s.Objects {
		mix(uint64(o.Kind)<<40 ^ o.Seed)
		for _, tw := range o.Tweaks {
			mix(tw)
		}
	}
	for _, r := range rec {
		mix(uint64(r.T)<<40 | uint64(r.To)<<32 | uint64(r.At))
		mix(uint64(r.Op))
	}
	return h
}

// executeRun performs one run and returns its report and violations.
// runWatchdog aborts the worker when one run takes implausibly long: the simulation is stuck - typically a
// task was descheduled inside code that another task then blocks on FOR REAL (a blocking primitive inside an
// uninstrumented dependency, a wait the instrumenter did not recognise).  Exit code 5 tells the coordinator
// to repeat the batch operation-granular, where no task is ever descheduled inside an operation.

// The watchdog is one goroutine for the life of the process.  Stuck means: no statement of the instrumented
// module was reached for `limit` (a task blocked for real on something a descheduled task holds), or the run has
// taken five times that long altogether (a livelock that keeps executing statements).  A run that is merely slow -
// a giant value on a loaded machine - keeps ticking.  It talks to the main goroutine through atomics only (these
// are touched at the start and the end of a run, never by a task).
var (
	wdStart   atomic.Int64 // start of the current run (Unix nanoseconds), 0 between runs
	wdWhat    atomic.Value // its description
	wdStarted bool
)

func armWatchdog(limit time.Duration, what string) {
	wdWhat.Store(what)
	wdStart.Store(time.Now().UnixNano())
	if wdStarted {
		return
	}
	wdStarted = true
	go func() {
		var cur, last int64
		var ticks uint64
		for {
			time.Sleep(limit / 8)
			st := wdStart.Load()
			now := time.Now().UnixNano()
			if st == 0 {
				cur = 0
				continue
			}
			if t := progressTicks(); st != cur || t != ticks {
				cur, ticks, last = st, t, now
			}
			if time.Duration(now-last) < limit && time.Duration(now-st) < 5*limit {
				continue
			}
			w, _ := wdWhat.Load().(string)
			fmt.Fprintf(os.Stderr, "simulation stuck for %s in %s: goroutine dump follows\n", limit, w)
			buf := make([]byte, 1<<20)
			n := runtime.Stack(buf, true)
			os.Stderr.Write(buf[:n])
			os.Exit(5)
		}
	}()
}

func disarmWatchdog() { wdStart.Store(0) }

// reportDeadlock is called by the scheduler (from a task, inside the concurrent phase) when every runnable task
// waits in a rewritten Lock / channel loop for something only another waiting or finished task could release
// (oracle O9).  The process cannot go on - its locks stay taken - so the violation is emitted here and the
// worker ends like after any other violation.
var (
	curSpec   *RunSpec
	curRunIdx int
)

//go:norace
func curOpOf(t int) int { return int(sCurOp[t]) }

func reportDeadlock(me int, mask uint64) {
	s := curSpec
	if s == nil {
		return
	}
	detail := "tasks waiting:"
	for t := 0; t < len(s.Tasks); t++ {
		if mask&(1<<uint(t)) != 0 {
			i := curOpOf(t)
			name := "?"
			if i >= 0 && i < len(s.Tasks[t]) {
				name = opNames[s.Tasks[t][i].K]
			}
			detail += fmt.Sprintf(" task %d in entry %d (%s);", t, i, name)
		}
	}
	buf := make([]byte, 64<<10)
	n := runtime.Stack(buf, true)
	fmt.Fprintf(os.Stderr, "deadlock among the tasks of run %d (seed %d): %s\n%s\n", curRunIdx, s.Seed, detail, buf[:n])
	_, _, _, _, _, _, rec, trunc, _ := schedStats()
	v := Violation{Oracle: "O9", Clause: "concurrent calls return, as they do when run sequentially", World: "concurrent", Task: me, OpIdx: curOpOf(me),
		Op: "Liveness", Kind: "deadlock", Verdict: true, Expected: "every call returns",
		Actual: "every runnable task waits for a lock or channel that only another waiting or finished task can release", Detail: detail}
	sp := *s
	emit(&violEv{Ev: "violation", Run: curRunIdx, Seed: s.Seed, Violations: []Violation{v}, Spec: &sp, Recorded: rec, First: firstTask(), RecTrunc: trunc})
	emit(endReport(curRunIdx + 1))
	os.Exit(3)
}

func executeRun(s *RunSpec, runIdx int, racePath string) (doneEv, *violEv) {
	t0 := time.Now() // wall time is reported only; it never feeds a decision
	curSpec, curRunIdx, deadlockFn = s, runIdx, reportDeadlock
	unsupportedFn = func() {
		fmt.Fprintf(os.Stderr, "simulation stuck: the tree under test uses an unbuffered channel between callers (run %d, seed %d); a rendezvous cannot be scheduled statement-granular\n", runIdx, s.Seed)
		os.Exit(5)
	}
	armWatchdog(watchdogLimit, fmt.Sprintf("run %d (seed %d)", runIdx, s.Seed))
	defer disarmWatchdog()
	var pre *world
	if s.PreRef && !s.Cold {
		pre = runReference(s)
	}
	raceBefore := raceLogSize(racePath)
	conc := runConcurrent(s)
	steps, switches, inflight, hash, gcFired, delivered, rec, trunc, stall := schedStats()
	raceAfter := raceLogSize(racePath)
	ref := runReference(s)

	var viols []Violation
	if conc.dead || ref.dead {
		fmt.Fprintf(os.Stderr, "simulation deadlock (harness bug): seed %d conc=%v ref=%v\n", s.Seed, conc.dead, ref.dead)
		os.Exit(2)
	}
	viols = checkModified(s, conc, conc.res, "concurrent", viols)
	viols = checkModified(s, ref, ref.res, "sequential", viols)
	viols = checkModified(s, ref, ref.iso, "isolated", viols)
	viols = checkAgainstReference(s, conc, ref, viols)
	viols = checkRetained(s, conc, conc.res, "concurrent", viols)
	viols = checkRetained(s, ref, ref.res, "sequential", viols)
	if pre != nil {
		viols = checkRefAgreement(s, pre, ref, viols)
		viols = checkAgainstReference(s, nil, pre, viols)
	}
	viols = append(viols, checkStash(runIdx)...)
	stashFrom(s, conc, runIdx)

	d := doneEv{Ev: "done", Run: runIdx, Seed: s.Seed, Cold: s.Cold, Mode: s.Mode, Tasks: len(s.Tasks),
		Steps: steps, Switches: switches, Inflight: inflight, Strat: stratNames[s.Sched.Strat], Gran: granNames[s.Sched.Gran],
		TraceHash: fmt.Sprintf("%016x", hash), ResHash: fmt.Sprintf("%016x", resultDigest(conc, conc.res)),
		Faults: map[string]int{}}
	for _, o := range s.Objects {
		if o.Shared {
			d.Shared++
		}
	}
	if wantOpHashes {
		renderNormalised = true
		for t := range conc.res {
			for i := range conc.res[t] {
				op := &s.Tasks[t][i]
				d.OpNames = append(d.OpNames, fmt.Sprintf("task %d entry %d %s/%s", t, i, opNames[op.K], kindName(s, conc, op)))
				d.OpHashes = append(d.OpHashes, fmt.Sprintf("%016x", fnv(0xcbf29ce484222325, render(&conc.res[t][i]))))
			}
		}
		renderNormalised = false
	}
	sharedMsgs := 0
	for t := range s.Tasks {
		d.Ops += len(s.Tasks[t])
		for i := range s.Tasks[t] {
			op := &s.Tasks[t][i]
			r := &conc.res[t][i]
			if opLibrary(op.K) {
				d.LibOps++
			}
			if r.skipped {
				d.Skipped++
			} else if opLibrary(op.K) {
				name := opNames[op.K]
				if opCounts[name] == nil {
					opCounts[name] = map[string]int{}
				}
				opCounts[name][kindName(s, conc, op)]++
			}
			if op.K == opSend && !r.skipped {
				sharedMsgs++
			}
			d.Faults["decodes_into_a_used_receiver"] += r.reused
			if s.Sched.Gran != granOp && opLibrary(op.K) && r.siteHash != ref.res[t][i].siteHash {
				d.Divergent++
			}
			for _, p := range r.parts {
				if p.kind == ptErr && p.err != nil {
					d.Errs++
				}
				if p.kind == ptPanic {
					d.Panics++
				}
			}
		}
		f := conc.fired[t]
		d.Faults["delay"] += f.delay
		d.Faults["corrupt"] += f.corrupt
		d.Faults["recv_blocked"] += f.recvBlocked
		d.Faults["sends"] += f.sends
	}
	d.Shared += sharedMsgs
	d.Faults["preempt_in_op"] = int(inflight)
	d.Faults["gc"] = int(gcFired)
	d.Faults["lock_wait"] = int(lockWaits())
	d.Faults["foreign_goroutine_hook_calls"] = int(foreignCalls())
	d.Faults["stall"] = int(stall)
	if hook.PoolSites > 0 {
		d.Faults["pool_miss_or_drop"] = int(sPoolFaults)
	}
	if hook.ClockSites > 0 {
		d.Faults["clock_jump"] = int(sClkJumps)
		d.Faults["clock_reads_by_the_tree"] = int(hook.ClockReads)
		d.SimS = float64(hook.ClockOffset-sClkStart) / 1e9
		hook.ClockReads = 0
	}
	if s.Sched.StallHot {
		d.Faults["stall_in_front_of_shared_state"] = int(stall)
	}
	if len(s.Objects) > 0 && s.Objects[0].Seed&narrowBit != 0 {
		d.Faults["runs_with_few_keys"] = 1
	}
	d.Faults["delivered"] = int(delivered)
	d.Faults["dup_planned"] = s.Plan.Dup
	d.Faults["drop_planned"] = s.Plan.Drop
	d.Faults["reorder_planned"] = s.Plan.Reorder
	d.Faults["burst_planned"] = s.Plan.Burst
	d.Faults["mutate_planned"] = s.Plan.BadValue
	d.Faults["repad_planned"] = s.Plan.Repad
	d.Faults["malformed_results"] = d.Errs
	d.WallMs = time.Since(t0).Milliseconds()
	d.Sig = fmt.Sprintf("%016x", sigOf(s, rec))
	d.Nontrivial = inflight > 0 && d.Shared > 0

	race := raceAfter > raceBefore
	var probes, hard []Violation
	for _, v := range viols {
		if v.Verdict || v.Oracle == "O5" {
			hard = append(hard, v)
		} else {
			probes = append(probes, v)
		}
	}
	if len(probes) > 8 {
		probes = probes[:8]
	}
	d.Probes = probes
	if len(hard) > 0 || race {
		if len(hard) > 12 {
			hard = hard[:12]
		}
		sp := *s
		ve := &violEv{Ev: "violation", Run: runIdx, Seed: s.Seed, Race: race, Violations: hard, Spec: &sp, Recorded: rec, First: firstTask(), RecTrunc: trunc}
		return d, ve
	}
	return d, nil
}

var opCounts = map[string]map[string]int{}

var watchdogLimit = 60 * time.Second

func endReport(runs int) endEv {
	e := endEv{Ev: "end", Runs: runs, NumSites: len(hook.Sites), NumLabel: numLabels, OpOnly: hook.OpOnly, OpCounts: opCounts}
	for i, c := range siteHit {
		if c > 0 {
			e.Sites = append(e.Sites, i)
		}
	}
	for w, word := range pairSeen {
		for b := 0; b < 64; b++ {
			if word&(1<<uint(b)) != 0 {
				e.Pairs = append(e.Pairs, w*64+b)
			}
		}
	}
	sort.Ints(e.Pairs)
	return e
}

func main() {
	batch := flag.Uint64("batch", 1, "batch seed")
	runs := flag.Int("runs", 20, "runs in this batch")
	tier := flag.String("tier", "quick", "quick|thorough")
	replay := flag.String("replay", "", "replay file: execute its runs in order")
	genOnly := flag.Bool("gen", false, "print the run specs of the batch instead of executing them")
	upto := flag.Int("upto", -1, "with -gen: only runs 0..upto")
	noCold := flag.Bool("nocold", false, "no cold first run")
	forceOp := flag.Bool("forceop", false, "operation-granular scheduling for every run (retry of a stuck batch)")
	wd := flag.Int("watchdog", 60, "seconds after which a single run is declared stuck (exit 5)")
	cpuprof := flag.String("cpuprofile", "", "write a CPU profile (development aid)")
	only := flag.Int("only", -1, "execute only this run of the batch (in a process without history)")
	clkOff := flag.Int64("clockoffset", 0, "initial offset of the simulated clock in seconds (history-free twin processes get another date than the batch)")
	_ = flag.Int("procs", 1, "GOMAXPROCS of this worker (set by the coordinator through the environment; recorded here for the log)")
	backwards := flag.Bool("backwards", false, "volume operations walk their distinct values in reverse order (history-free twin process of O8)")
	opHashes := flag.Bool("ophashes", false, "report one digest per operation with every run")
	calib := flag.Bool("calibrate", false, "print which packet kinds and unit operations reach statements that touch shared state")
	hot := flag.String("hot", "", "result of the calibration pass (kinds:units, hexadecimal masks)")
	flag.Parse()
	if *hot != "" {
		if i := strings.IndexByte(*hot, ':'); i > 0 {
			hotKinds, _ = strconv.ParseUint((*hot)[:i], 16, 64)
			hotUnits, _ = strconv.ParseUint((*hot)[i+1:], 16, 64)
		}
	}
	watchdogLimit = time.Duration(*wd) * time.Second
	if *cpuprof != "" {
		if f, err := os.Create(*cpuprof); err == nil {
			_ = pprof.StartCPUProfile(f)
			defer pprof.StopCPUProfile()
		}
	}

	debug.SetGCPercent(200)
	if *tier == "thorough" {
		bigBias = 1
	}
	initTypeMasks()
	installHook()
	if *calib {
		calibrate()
		return
	}
	racePath := os.Getenv("SIM_RACE_LOG")
	_ = runtime.NumCPU

	if *replay != "" {
		b, err := os.ReadFile(*replay)
		if err != nil {
			fmt.Fprintln(os.Stderr, err)
			os.Exit(2)
		}
		var rf ReplayFile
		if err := json.Unmarshal(b, &rf); err != nil {
			fmt.Fprintln(os.Stderr, "replay file:", err)
			os.Exit(2)
		}
		for i, s := range rf.Runs {
			emit(startEv{Ev: "start", Run: i, Seed: s.Seed, Cold: s.Cold})
			d, ve := executeRun(s, i, racePath)
			emit(d)
			if ve != nil {
				emit(ve)
				emit(endReport(i + 1))
				os.Exit(3)
			}
		}
		emit(endReport(len(rf.Runs)))
		return
	}

	br := &rng{s: *batch}
	var specs []*RunSpec
	for j := 0; j < *runs; j++ {
		seed := br.u64()
		cold := j == 0 && !*noCold
		specs = append(specs, genSpec(seed, cold, hook.OpOnly || *forceOp, *tier))
	}
	if *genOnly {
		n := len(specs)
		if *upto >= 0 && *upto+1 < n {
			n = *upto + 1
		}
		emit(specs[:n])
		return
	}
	wantOpHashes = *opHashes
	volumeBackwards = *backwards
	_ = clkOff // the offset itself comes in through SIM_CLOCK_OFFSET (package initialisers of the tree run before main)
	clockOffset0 = hook.ClockOffset
	for j, s := range specs {
		if *only >= 0 && j != *only {
			continue
		}
		emit(startEv{Ev: "start", Batch: *batch, Run: j, Seed: s.Seed, Cold: s.Cold})
		d, ve := executeRun(s, j, racePath)
		emit(d)
		if ve != nil {
			emit(ve)
			emit(endReport(j + 1))
			os.Exit(3)
		}
	}
	end := endReport(len(specs))
	end.Canary = canaryDigests()
	emit(end)
}
