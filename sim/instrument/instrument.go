// Package instrument copies a Go module's non-test sources into a scratch
// directory and inserts a scheduler yield call before every statement.
//
// The insertion is textual (byte offsets taken from go/parser positions), so
// line numbers, comments and formatting of the original files are preserved
// and panics / race reports keep pointing at the original lines.
package instrument

import (
	"bytes"
	"encoding/json"
	"fmt"
	"go/ast"
	"go/parser"
	"go/token"
	"os"
	"path/filepath"
	"sort"
	"strings"
)

// HookPkgDir is the directory (inside the copied module) of the generated
// leaf package that carries the hook variable and the site table.
const HookPkgDir = "zz_simhook"

// Site describes one generated yield point.
type Site struct {
	ID        int    `json:"id"`
	File      string `json:"file"` // path relative to module root
	Line      int    `json:"line"`
	Func      string `json:"func"`
	FuncFirst bool   `json:"func_first"` // first statement of a function body
	Global    bool   `json:"global"`     // statement mentions a package-level variable or a synchronisation/atomic access
}

// Descriptor is what the instrumenter reports about the copied tree.
type Descriptor struct {
	Module       string   `json:"module"`
	Files        int      `json:"files"`
	Sites        int      `json:"sites"`
	SyncImports  []string `json:"sync_imports"`  // files importing sync or sync/atomic
	BlockingSync []string `json:"blocking_sync"` // constructs that force operation-granular scheduling
	SoftSync     []string `json:"soft_sync"`     // sync.Mutex/RWMutex/Once uses handled by the lock rewrite
	GoStmts      int      `json:"go_stmts"`
	ChanOps      int      `json:"chan_ops"`
	PkgVars      []string `json:"pkg_vars"`      // package-level variables that are not error sentinels
	OpOnly       bool     `json:"op_only"`       // scheduling must stay operation-granular
	LockRewrites int      `json:"lock_rewrites"` // x.Lock()/x.RLock() statements rewritten to TryLock loops
	OnceWraps    int      `json:"once_wraps"`    // x.Do(f) statements put behind a cooperative gate
	WaitHints    int      `json:"wait_hints"`    // runtime.Gosched() statements preceded by a "waiting" hint
	Rewrite      bool     `json:"rewrite"`       // lock rewriting was enabled for this copy
	SiteTable    []Site   `json:"-"`
}

var syncishSelector = map[string]bool{"Load": true, "Store": true, "Swap": true, "CompareAndSwap": true, "Add": true,
	"Lock": true, "Unlock": true, "RLock": true, "RUnlock": true, "TryLock": true, "Get": true, "Put": true,
	"LoadOrStore": true, "LoadAndDelete": true, "Delete": true, "Do": true,
	"LoadUint32": true, "StoreUint32": true, "LoadUint64": true, "StoreUint64": true, "LoadPointer": true, "StorePointer": true,
	"AddUint32": true, "AddUint64": true, "AddInt32": true, "AddInt64": true, "CompareAndSwapUint32": true, "CompareAndSwapUint64": true,
	"CompareAndSwapPointer": true, "LoadInt32": true, "LoadInt64": true, "StoreInt32": true, "StoreInt64": true}

type insertion struct {
	off  int
	text string
}

// Run copies srcDir (a Go module) to dstDir, instrumenting every non-test Go
// file of every package directory.
func Run(srcDir, dstDir string) (*Descriptor, error) { return RunOpts(srcDir, dstDir, true) }

// RunOpts is Run with lock rewriting switchable.  With rewrite, statements of the
// form `x.Lock()` / `x.RLock()` become `for !x.TryLock() { zzSimhook.Blocked() }`
// (the scheduler then runs another task until the lock is free, so a task
// descheduled inside a critical section cannot deadlock the simulation) and
// statements of the form `x.Do(f)` run inside a no-preemption window (sync.Once
// holds a mutex while f runs).  If the rewritten copy does not compile the caller
// falls back to RunOpts(..., false), which flags the tree operation-granular.
func RunOpts(srcDir, dstDir string, rewrite bool) (*Descriptor, error) {
	mod, err := modulePath(filepath.Join(srcDir, "go.mod"))
	if err != nil {
		return nil, err
	}
	d := &Descriptor{Module: mod, Rewrite: rewrite}
	hookImport := mod + "/" + HookPkgDir

	// collect package directories
	var goFiles []string
	err = filepath.Walk(srcDir, func(p string, info os.FileInfo, err error) error {
		if err != nil {
			return err
		}
		rel, _ := filepath.Rel(srcDir, p)
		if info.IsDir() {
			base := info.Name()
			if rel != "." && (strings.HasPrefix(base, ".") || strings.HasPrefix(base, "_") || base == "testdata" || base == "vendor" || base == HookPkgDir) {
				return filepath.SkipDir
			}
			return nil
		}
		switch {
		case strings.HasSuffix(rel, "_test.go"):
			return nil
		case strings.HasSuffix(rel, ".go"):
			goFiles = append(goFiles, rel)
		default:
			// go.mod, go.sum and whatever else the build may need (//go:embed data, assembly, C sources);
			// very large files are left behind
			if info.Mode().IsRegular() && info.Size() <= 8<<20 {
				return copyFile(p, filepath.Join(dstDir, rel))
			}
		}
		return nil
	})
	if err != nil {
		return nil, err
	}
	sort.Strings(goFiles)

	// first pass: package-level variable names per directory
	fset := token.NewFileSet()
	parsed := map[string]*ast.File{}
	srcs := map[string][]byte{}
	pkgVars := map[string]map[string]bool{} // dir -> names
	for _, rel := range goFiles {
		src, err := os.ReadFile(filepath.Join(srcDir, rel))
		if err != nil {
			return nil, err
		}
		f, err := parser.ParseFile(fset, rel, src, parser.ParseComments)
		if err != nil {
			return nil, fmt.Errorf("parse %s: %w", rel, err)
		}
		parsed[rel] = f
		srcs[rel] = src
		dir := filepath.Dir(rel)
		if pkgVars[dir] == nil {
			pkgVars[dir] = map[string]bool{}
		}
		for _, decl := range f.Decls {
			gd, ok := decl.(*ast.GenDecl)
			if !ok || gd.Tok != token.VAR {
				continue
			}
			for _, sp := range gd.Specs {
				vs := sp.(*ast.ValueSpec)
				for i, n := range vs.Names {
					if n.Name == "_" {
						continue
					}
					pkgVars[dir][n.Name] = true
					if !isErrSentinel(vs, i) {
						d.PkgVars = append(d.PkgVars, rel+":"+n.Name)
					}
				}
			}
		}
	}

	// second pass: insert yields
	for _, rel := range goFiles {
		f := parsed[rel]
		src := srcs[rel]
		if f.Name.Name == "main" {
			// not part of the library; copy verbatim
			if err := writeFile(filepath.Join(dstDir, rel), src); err != nil {
				return nil, err
			}
			continue
		}
		dir := filepath.Dir(rel)
		var ins []insertion
		tf := fset.File(f.Pos())

		for _, imp := range f.Imports {
			p := strings.Trim(imp.Path.Value, `"`)
			if p == "sync" || p == "sync/atomic" {
				d.SyncImports = append(d.SyncImports, rel+":"+p)
			}
		}

		var curFunc string
		var visitBlock func(list []ast.Stmt, first bool)
		addSite := func(st ast.Stmt, first bool) {
			pos := st.Pos()
			id := len(d.SiteTable)
			s := Site{ID: id, File: rel, Line: tf.Line(pos), Func: curFunc, FuncFirst: first}
			ast.Inspect(st, func(n ast.Node) bool {
				if _, isLit := n.(*ast.FuncLit); isLit {
					return false
				}
				if idn, ok := n.(*ast.Ident); ok && pkgVars[dir][idn.Name] {
					s.Global = true
				}
				if sel, ok := n.(*ast.SelectorExpr); ok && syncishSelector[sel.Sel.Name] {
					// a synchronisation or atomic access: windows between two of these are where
					// atomicity violations live, so the global-biased strategy prefers to switch here
					s.Global = true
				}
				return true
			})
			d.SiteTable = append(d.SiteTable, s)
			ins = append(ins, insertion{tf.Offset(pos), fmt.Sprintf("zzSimhook.Yield(%d); ", id)})
		}
		visitBlock = func(list []ast.Stmt, first bool) {
			for i, st := range list {
				switch st.(type) {
				case *ast.CaseClause, *ast.CommClause:
					// body of a switch/select visited as a block: no statement may precede a clause
				default:
					addSite(st, first && i == 0)
				}
			}
		}
		var walk func(n ast.Node) bool
		walk = func(n ast.Node) bool {
			switch x := n.(type) {
			case *ast.FuncDecl:
				prev := curFunc
				curFunc = funcName(x)
				if x.Body != nil {
					visitBlock(x.Body.List, true)
					for _, st := range x.Body.List {
						ast.Inspect(st, walk)
					}
				}
				curFunc = prev
				return false
			case *ast.FuncLit:
				prev := curFunc
				curFunc = curFunc + ".func"
				visitBlock(x.Body.List, true)
				for _, st := range x.Body.List {
					ast.Inspect(st, walk)
				}
				curFunc = prev
				return false
			case *ast.BlockStmt:
				visitBlock(x.List, false)
			case *ast.CaseClause:
				visitBlock(x.Body, false)
			case *ast.CommClause:
				visitBlock(x.Body, false)
			case *ast.ExprStmt:
				if call, ok := x.X.(*ast.CallExpr); ok && rewrite {
					if sel, ok := call.Fun.(*ast.SelectorExpr); ok {
						switch {
						case (sel.Sel.Name == "Lock" || sel.Sel.Name == "RLock") && len(call.Args) == 0:
							ins = append(ins, insertion{tf.Offset(x.Pos()), "for !"})
							ins = append(ins, insertion{tf.Offset(sel.Sel.Pos()), "Try"})
							ins = append(ins, insertion{tf.Offset(x.End()), " { zzSimhook.Blocked() }"})
							d.LockRewrites++
						case sel.Sel.Name == "Do" && len(call.Args) == 1:
							// sync.Once holds a mutex while f runs.  The statement is put behind a cooperative gate (one per
							// call site): a task that arrives while another task is inside yields to the scheduler instead of
							// blocking for real on the Once's mutex with the token in its hand; f itself stays preemptible.
							gate := len(d.SiteTable) + 1000000 + d.OnceWraps
							ins = append(ins, insertion{tf.Offset(x.Pos()), fmt.Sprintf("func() { for !zzSimhook.Enter(%d) { zzSimhook.Blocked() }; defer zzSimhook.Leave(%d); ", gate, gate)})
							ins = append(ins, insertion{tf.Offset(x.End()), " }()"})
							d.OnceWraps++
						case sel.Sel.Name == "Gosched" && len(call.Args) == 0:
							if id, ok := sel.X.(*ast.Ident); ok && id.Name == "runtime" {
								// a hand-written wait loop: tell the scheduler that this task is waiting for another one
								ins = append(ins, insertion{tf.Offset(x.Pos()), "zzSimhook.Waiting(); "})
								d.WaitHints++
							}
						}
					}
				}
			case *ast.GoStmt:
				d.GoStmts++
				d.BlockingSync = append(d.BlockingSync, fmt.Sprintf("%s:%d go statement", rel, tf.Line(x.Pos())))
			case *ast.SelectStmt:
				d.ChanOps++
				d.BlockingSync = append(d.BlockingSync, fmt.Sprintf("%s:%d select", rel, tf.Line(x.Pos())))
			case *ast.SendStmt:
				d.ChanOps++
				d.BlockingSync = append(d.BlockingSync, fmt.Sprintf("%s:%d channel send", rel, tf.Line(x.Pos())))
			case *ast.UnaryExpr:
				if x.Op == token.ARROW {
					d.ChanOps++
					d.BlockingSync = append(d.BlockingSync, fmt.Sprintf("%s:%d channel receive", rel, tf.Line(x.Pos())))
				}
			case *ast.ChanType:
				d.ChanOps++
				d.BlockingSync = append(d.BlockingSync, fmt.Sprintf("%s:%d channel type", rel, tf.Line(x.Pos())))
			case *ast.SelectorExpr:
				if id, ok := x.X.(*ast.Ident); ok && id.Name == "sync" {
					switch x.Sel.Name {
					case "Pool", "Map":
						// never hold a lock across user code: cannot block a descheduled task's peers
					case "Mutex", "RWMutex", "Once", "Locker":
						if rewrite {
							d.SoftSync = append(d.SoftSync, fmt.Sprintf("%s:%d sync.%s", rel, tf.Line(x.Pos()), x.Sel.Name))
						} else {
							d.BlockingSync = append(d.BlockingSync, fmt.Sprintf("%s:%d sync.%s", rel, tf.Line(x.Pos()), x.Sel.Name))
						}
					default:
						d.BlockingSync = append(d.BlockingSync, fmt.Sprintf("%s:%d sync.%s", rel, tf.Line(x.Pos()), x.Sel.Name))
					}
				}
			}
			return true
		}
		for _, decl := range f.Decls {
			ast.Inspect(decl, walk)
		}

		out := src
		if len(ins) > 0 {
			// import right after the package clause, on the same line
			ins = append(ins, insertion{tf.Offset(f.Name.End()), fmt.Sprintf("; import zzSimhook %q", hookImport)})
			sort.SliceStable(ins, func(i, j int) bool { return ins[i].off < ins[j].off })
			var b bytes.Buffer
			last := 0
			for _, in := range ins {
				b.Write(src[last:in.off])
				b.WriteString(in.text)
				last = in.off
			}
			b.Write(src[last:])
			out = b.Bytes()
		}
		if err := writeFile(filepath.Join(dstDir, rel), out); err != nil {
			return nil, err
		}
		d.Files++
	}
	d.Sites = len(d.SiteTable)
	d.OpOnly = len(d.BlockingSync) > 0
	sort.Strings(d.BlockingSync)

	// hook package
	var hb bytes.Buffer
	hb.WriteString("// Code generated by the verification instrumenter. DO NOT EDIT.\n\n")
	hb.WriteString("// Package zz_simhook carries the scheduler hook of the deterministic simulation.\n")
	hb.WriteString("package zz_simhook\n\n")
	hb.WriteString("// Hook is called before every statement of the instrumented module when non-nil.\n")
	hb.WriteString("var Hook func(site int)\n\n")
	hb.WriteString("// Yield is the generated call target.\n")
	hb.WriteString("func Yield(site int) {\n\tif Hook != nil {\n\t\tHook(site)\n\t}\n}\n\n")
	hb.WriteString("// Blocked is called from a rewritten Lock loop: the lock is held by a descheduled task.\n")
	hb.WriteString("func Blocked() {\n\tif Hook != nil {\n\t\tHook(-2)\n\t}\n}\n\n")
	hb.WriteString("// Waiting is called before a runtime.Gosched() of the instrumented module (a hand-written wait loop).\n")
	hb.WriteString("func Waiting() {\n\tif Hook != nil {\n\t\tHook(-3)\n\t}\n}\n\n")
	hb.WriteString("// gates serialise the x.Do(f) statements of the instrumented module cooperatively (see Enter).\nvar gates [64]struct {\n\tid    int\n\towner int\n\tdepth int\n}\n\n")
	hb.WriteString("// CurTask is the simulated task that holds the token (maintained by the harness).\nvar CurTask int\n\n")
	hb.WriteString("// Enter tries to pass the gate of a wrapped x.Do(f) statement.  Exactly one simulated task runs at a time,\n// so plain variables are enough; outside a simulation the gate is always open.  The gate is re-entrant for\n// the task that holds it (f may reach the same statement again: recursion, or a method that is merely called Do).\n//\n//go:norace\nfunc Enter(id int) bool {\n\tif Hook == nil || !Active {\n\t\treturn true\n\t}\n\tfree := -1\n\tfor i := range gates {\n\t\tif gates[i].depth > 0 && gates[i].id == id {\n\t\t\tif gates[i].owner == CurTask {\n\t\t\t\tgates[i].depth++\n\t\t\t\treturn true\n\t\t\t}\n\t\t\treturn false\n\t\t}\n\t\tif gates[i].depth == 0 && free < 0 {\n\t\t\tfree = i\n\t\t}\n\t}\n\tif free >= 0 {\n\t\tgates[free].id, gates[free].owner, gates[free].depth = id, CurTask, 1\n\t}\n\treturn true\n}\n\n")
	hb.WriteString("// Leave undoes one Enter.\n//\n//go:norace\nfunc Leave(id int) {\n\tif Hook == nil || !Active {\n\t\treturn\n\t}\n\tfor i := range gates {\n\t\tif gates[i].depth > 0 && gates[i].id == id && gates[i].owner == CurTask {\n\t\t\tgates[i].depth--\n\t\t\treturn\n\t\t}\n\t}\n}\n\n")
	hb.WriteString("// ResetGates opens every gate (called by the harness between runs).\n//\n//go:norace\nfunc ResetGates() {\n\tfor i := range gates {\n\t\tgates[i].depth = 0\n\t}\n}\n\n")
	hb.WriteString("// Active is set by the harness around the concurrent phase of a run.\nvar Active bool\n\n// NoPreempt is kept for compatibility (always 0).\nvar NoPreempt int\n\n")
	hb.WriteString("// SiteInfo describes one yield site.\ntype SiteInfo struct {\n\tFile string\n\tLine int\n\tFunc string\n\tFuncFirst bool\n\tGlobal bool\n}\n\n")
	fmt.Fprintf(&hb, "// OpOnly is set when the module contains blocking synchronisation of its own.\nconst OpOnly = %v\n\n", d.OpOnly)
	hb.WriteString("// Sites is the table of generated yield sites.\nvar Sites = [...]SiteInfo{\n")
	for _, s := range d.SiteTable {
		fmt.Fprintf(&hb, "\t{%q, %d, %q, %v, %v},\n", s.File, s.Line, s.Func, s.FuncFirst, s.Global)
	}
	hb.WriteString("}\n")
	if err := writeFile(filepath.Join(dstDir, HookPkgDir, "hook.go"), hb.Bytes()); err != nil {
		return nil, err
	}
	dj, _ := json.MarshalIndent(d, "", " ")
	if err := writeFile(filepath.Join(dstDir, HookPkgDir, "descriptor.json"), dj); err != nil {
		return nil, err
	}
	return d, nil
}

func isErrSentinel(vs *ast.ValueSpec, i int) bool {
	if i >= len(vs.Values) {
		return false
	}
	call, ok := vs.Values[i].(*ast.CallExpr)
	if !ok {
		return false
	}
	sel, ok := call.Fun.(*ast.SelectorExpr)
	if !ok {
		return false
	}
	id, ok := sel.X.(*ast.Ident)
	return ok && id.Name == "errors" && sel.Sel.Name == "New"
}

func funcName(fd *ast.FuncDecl) string {
	if fd.Recv != nil && len(fd.Recv.List) > 0 {
		t := fd.Recv.List[0].Type
		if st, ok := t.(*ast.StarExpr); ok {
			t = st.X
		}
		if id, ok := t.(*ast.Ident); ok {
			return id.Name + "." + fd.Name.Name
		}
	}
	return fd.Name.Name
}

func modulePath(gomod string) (string, error) {
	b, err := os.ReadFile(gomod)
	if err != nil {
		return "", err
	}
	for _, ln := range strings.Split(string(b), "\n") {
		ln = strings.TrimSpace(ln)
		if strings.HasPrefix(ln, "module ") {
			return strings.TrimSpace(strings.TrimPrefix(ln, "module ")), nil
		}
	}
	return "", fmt.Errorf("no module line in %s", gomod)
}

func copyFile(src, dst string) error {
	b, err := os.ReadFile(src)
	if err != nil {
		return err
	}
	return writeFile(dst, b)
}

func writeFile(dst string, b []byte) error {
	if err := os.MkdirAll(filepath.Dir(dst), 0o755); err != nil {
		return err
	}
	return os.WriteFile(dst, b, 0o644)
}
