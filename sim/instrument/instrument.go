// Package instrument copies a Go module's non-test sources into a scratch
// directory and inserts a scheduler yield call before every statement.
//
// The insertion is textual (byte offsets taken from go/parser positions), so
// line numbers, comments and formatting of the original files are preserved
// and panics / race reports keep pointing at the original lines.
package instrument

import (
	"bytes"
	"encoding/json"
	"fmt"
	"go/ast"
	"go/parser"
	"go/token"
	"os"
	"path/filepath"
	"sort"
	"strconv"
	"strings"
)

// HookPkgDir is the directory (inside the copied module) of the generated
// leaf package that carries the hook variable and the site table.
const HookPkgDir = "zz_simhook"

// Site describes one generated yield point.
type Site struct {
	ID        int    `json:"id"`
	File      string `json:"file"` // path relative to module root
	Line      int    `json:"line"`
	Func      string `json:"func"`
	FuncFirst bool   `json:"func_first"` // first statement of a function body
	Hot       bool   `json:"hot"`        // statement mentions a package-level variable that is not an error sentinel, or a synchronisation/atomic access
	Global    bool   `json:"global"`     // statement mentions a package-level variable or a synchronisation/atomic access
}

// Descriptor is what the instrumenter reports about the copied tree.
type Descriptor struct {
	Module         string   `json:"module"`
	Files          int      `json:"files"`
	Sites          int      `json:"sites"`
	SyncImports    []string `json:"sync_imports"`  // files importing sync or sync/atomic
	BlockingSync   []string `json:"blocking_sync"` // constructs that force operation-granular scheduling
	SoftSync       []string `json:"soft_sync"`     // sync.Mutex/RWMutex/Once uses handled by the lock rewrite
	GoStmts        int      `json:"go_stmts"`
	ChanOps        int      `json:"chan_ops"`
	PkgVars        []string `json:"pkg_vars"`      // package-level variables that are not error sentinels
	OpOnly         bool     `json:"op_only"`       // scheduling must stay operation-granular
	LockRewrites   int      `json:"lock_rewrites"` // x.Lock()/x.RLock() statements rewritten to TryLock loops
	ClockNote      string   `json:"clock_note,omitempty"`
	ClockScales    []int64  `json:"clock_scales,omitempty"` // durations the tree's source mentions (ns)
	OwnLockTypes   []string `json:"own_lock_types,omitempty"`
	OwnLockMethods []string `json:"own_lock_methods,omitempty"` // Lock/RLock/TryLock methods declared by the module itself
	ClockReads     int      `json:"clock_reads"`                // time.Now / Since / Until / Sleep expressions redirected to the simulated clock
	Timers         []string `json:"timers"`                     // time.After / AfterFunc / NewTimer / NewTicker / Tick: left on the real clock (their goroutines are foreign to the simulator)
	PoolSites      int      `json:"pool_sites"`                 // x.Get() / x.Put(v) expressions behind the pool-miss fault
	OnceWraps      int      `json:"once_wraps"`                 // x.Do(f) statements put behind a cooperative gate
	ChanCoop       int      `json:"chan_coop"`                  // channel sends/receives rewritten to cooperative loops, and selects with a default clause left as they are (trees without go statements only)
	WaitHints      int      `json:"wait_hints"`                 // runtime.Gosched() statements preceded by a "waiting" hint
	Rewrite        bool     `json:"rewrite"`                    // lock rewriting was enabled for this copy
	Verbatim       []string `json:"verbatim"`                   // files copied without instrumentation (unparsable, package main, not imported by the root package)
	SiteTable      []Site   `json:"-"`
}

var timeUnits = map[string]int64{"Nanosecond": 1, "Microsecond": 1e3, "Millisecond": 1e6, "Second": 1e9, "Minute": 60e9, "Hour": 3600e9}

var syncishSelector = map[string]bool{"Load": true, "Store": true, "Swap": true, "CompareAndSwap": true, "Add": true,
	"Lock": true, "Unlock": true, "RLock": true, "RUnlock": true, "TryLock": true, "Get": true, "Put": true,
	"LoadOrStore": true, "LoadAndDelete": true, "Delete": true, "Do": true,
	"LoadUint32": true, "StoreUint32": true, "LoadUint64": true, "StoreUint64": true, "LoadPointer": true, "StorePointer": true,
	"AddUint32": true, "AddUint64": true, "AddInt32": true, "AddInt64": true, "CompareAndSwapUint32": true, "CompareAndSwapUint64": true,
	"CompareAndSwapPointer": true, "LoadInt32": true, "LoadInt64": true, "StoreInt32": true, "StoreInt64": true}

type insertion struct {
	off  int
	text string
	del  int // octets of the source replaced by text (0: pure insertion)
}

// Run copies srcDir (a Go module) to dstDir, instrumenting every non-test Go
// file of every package directory.
func Run(srcDir, dstDir string) (*Descriptor, error) { return RunOpts(srcDir, dstDir, true) }

// RunOpts is Run with lock rewriting switchable.  With rewrite, statements of the
// form `x.Lock()` / `x.RLock()` become `for !x.TryLock() { zzSimhook.Blocked() }`
// (the scheduler then runs another task until the lock is free, so a task
// descheduled inside a critical section cannot deadlock the simulation) and
// statements of the form `x.Do(f)` run inside a no-preemption window (sync.Once
// holds a mutex while f runs).  If the rewritten copy does not compile the caller
// falls back to RunOpts(..., false), which flags the tree operation-granular.
func RunOpts(srcDir, dstDir string, rewrite bool) (*Descriptor, error) {
	mod, err := modulePath(filepath.Join(srcDir, "go.mod"))
	if err != nil {
		return nil, err
	}
	d := &Descriptor{Module: mod, Rewrite: rewrite}
	hookImport := mod + "/" + HookPkgDir

	// collect package directories (symlinks are followed, nested modules skipped)
	var goFiles []string
	seenDirs := map[string]bool{}
	var collect func(abs, rel string) error
	collect = func(abs, rel string) error {
		if real, err := filepath.EvalSymlinks(abs); err == nil {
			if seenDirs[real] {
				return nil
			}
			seenDirs[real] = true
		}
		ents, err := os.ReadDir(abs)
		if err != nil {
			return err
		}
		for _, e := range ents {
			name := e.Name()
			p := filepath.Join(abs, name)
			r := filepath.Join(rel, name)
			info, err := os.Stat(p) // follows symlinks
			if err != nil {
				continue // dangling link
			}
			if info.IsDir() {
				if strings.HasPrefix(name, ".") || strings.HasPrefix(name, "_") || name == "testdata" || name == "vendor" || name == HookPkgDir {
					continue
				}
				if _, err := os.Stat(filepath.Join(p, "go.mod")); err == nil {
					continue // a nested module is not part of this module
				}
				if err := collect(p, r); err != nil {
					return err
				}
				continue
			}
			switch {
			case strings.HasSuffix(name, "_test.go"):
			case strings.HasSuffix(name, ".go") && !strings.HasPrefix(name, "_") && !strings.HasPrefix(name, "."):
				goFiles = append(goFiles, r)
			default:
				// go.mod, go.sum and whatever else the build may need (//go:embed data, assembly, C sources, files the
				// go tool ignores); very large files are left behind
				if info.Mode().IsRegular() && info.Size() <= 8<<20 {
					if err := copyFile(p, filepath.Join(dstDir, r)); err != nil {
						return err
					}
				}
			}
		}
		return nil
	}
	if err := collect(srcDir, ""); err != nil {
		return nil, err
	}
	sort.Strings(goFiles)

	// first pass: package-level variable names per directory
	fset := token.NewFileSet()
	parsed := map[string]*ast.File{}
	srcs := map[string][]byte{}
	clockSeam := true
	treeHasGo := false                      // a tree that starts goroutines of its own keeps its channel operations (and stays operation-granular)
	clockScales := map[int64]bool{}         // durations (ns) that appear in the tree as N * time.Unit or time.Unit
	pkgVars := map[string]map[string]bool{} // dir -> names
	pkgMut := map[string]map[string]bool{}  // dir -> names of package-level variables that are not error sentinels
	for _, rel := range goFiles {
		src, err := os.ReadFile(filepath.Join(srcDir, rel))
		if err != nil {
			return nil, err
		}
		f, err := parser.ParseFile(fset, rel, src, parser.ParseComments)
		if err != nil {
			// not our business: the Go build decides whether the file matters
			d.Verbatim = append(d.Verbatim, rel+" (does not parse)")
			if err := writeFile(filepath.Join(dstDir, rel), src); err != nil {
				return nil, err
			}
			continue
		}
		parsed[rel] = f
		srcs[rel] = src
		ast.Inspect(f, func(n ast.Node) bool {
			if _, ok := n.(*ast.GoStmt); ok {
				treeHasGo = true
			}
			return true
		})
		dir := filepath.Dir(rel)
		if pkgVars[dir] == nil {
			pkgVars[dir] = map[string]bool{}
			pkgMut[dir] = map[string]bool{}
		}
		for _, imp := range f.Imports {
			if strings.Trim(imp.Path.Value, "`\"") == "time" && (imp.Name == nil || (imp.Name.Name != "." && imp.Name.Name != "_")) {
				tn := "time"
				if imp.Name != nil {
					tn = imp.Name.Name
				}
				ast.Inspect(f, func(n ast.Node) bool {
					if sel, ok := n.(*ast.SelectorExpr); ok {
						if id, ok := sel.X.(*ast.Ident); ok && id.Name == tn && id.Obj == nil {
							switch sel.Sel.Name {
							case "After", "AfterFunc", "NewTimer", "NewTicker", "Tick":
								// timers and tickers run on the real clock and hand out real times: a tree that uses them
								// keeps the real clock everywhere (two clocks in one tree would run against each other)
								if clockSeam {
									d.ClockNote = fmt.Sprintf("%s:%d uses time.%s: the clock seam is off, the tree reads the real clock", rel, fset.Position(sel.Pos()).Line, sel.Sel.Name)
								}
								clockSeam = false
							}
						}
					}
					return true
				})
			}
			if strings.Trim(imp.Path.Value, "`\"") == "time" && imp.Name != nil && imp.Name.Name == "." {
				// a dot import hides which identifiers are the clock: no file of the module is switched to the
				// simulated clock then (a tree that reads two clocks would see time run backwards)
				clockSeam = false
				d.ClockNote = rel + " dot-imports time: the clock seam is off, the tree reads the real clock"
			}
		}
		for _, decl := range f.Decls {
			if fd, ok := decl.(*ast.FuncDecl); ok && fd.Recv != nil {
				switch fd.Name.Name {
				case "Lock", "RLock", "TryLock", "TryRLock":
					// the module has lock methods of its own: only receivers that are exactly a sync.Mutex / RWMutex are
					// then acquired through TryLock (a wrapper's Lock may do more than lock)
					d.OwnLockMethods = append(d.OwnLockMethods, fmt.Sprintf("%s:%d %s", rel, fset.Position(fd.Pos()).Line, fd.Name.Name))
					if len(fd.Recv.List) > 0 {
						d.OwnLockTypes = append(d.OwnLockTypes, recvTypeName(fd.Recv.List[0].Type))
					}
				}
			}
			gd, ok := decl.(*ast.GenDecl)
			if !ok || gd.Tok != token.VAR {
				continue
			}
			for _, sp := range gd.Specs {
				vs := sp.(*ast.ValueSpec)
				for i, n := range vs.Names {
					if n.Name == "_" {
						continue
					}
					pkgVars[dir][n.Name] = true
					if !isErrSentinel(vs, i) {
						pkgMut[dir][n.Name] = true
						d.PkgVars = append(d.PkgVars, rel+":"+n.Name)
					}
				}
			}
		}
	}

	// which package directories does the root package reach?  Only those are instrumented and analysed: a
	// channel in an example program or in a command that nobody imports must not change how the library is checked.
	reach := map[string]bool{".": true}
	for changed := true; changed; {
		changed = false
		for rel, f := range parsed {
			if !reach[filepath.Dir(rel)] || f.Name.Name == "main" {
				continue
			}
			for _, imp := range f.Imports {
				p := strings.Trim(imp.Path.Value, "`\"")
				if strings.HasPrefix(p, mod+"/") {
					if dir := filepath.FromSlash(strings.TrimPrefix(p, mod+"/")); !reach[dir] {
						reach[dir] = true
						changed = true
					}
				}
			}
		}
	}

	// second pass: insert yields
	for _, rel := range goFiles {
		f := parsed[rel]
		if f == nil {
			continue // did not parse: already copied verbatim
		}
		src := srcs[rel]
		if bytes.Contains(src, []byte("//go:linkname")) || bytes.Contains(src, []byte("//go:nosplit")) || bytes.Contains(src, []byte("//go:systemstack")) {
			// code that reaches into the runtime (a goroutine pinned to its processor must not be asked to yield): left alone
			d.Verbatim = append(d.Verbatim, rel+" (go:linkname / go:nosplit: not instrumented)")
			if err := writeFile(filepath.Join(dstDir, rel), src); err != nil {
				return nil, err
			}
			d.Files++
			continue
		}
		if f.Name.Name == "main" || !reach[filepath.Dir(rel)] || strings.HasSuffix(f.Name.Name, "_test") {
			// not part of the library as the harness sees it; copy verbatim
			d.Verbatim = append(d.Verbatim, rel)
			if err := writeFile(filepath.Join(dstDir, rel), src); err != nil {
				return nil, err
			}
			continue
		}
		dir := filepath.Dir(rel)
		var ins []insertion
		tf := fset.File(f.Pos())

		importsSync := false
		importNames := map[string]bool{} // names under which this file knows imported packages
		for _, imp := range f.Imports {
			p := strings.Trim(imp.Path.Value, "`\"")
			n := p[strings.LastIndex(p, "/")+1:]
			if imp.Name != nil {
				n = imp.Name.Name
			}
			importNames[n] = true
		}
		timeName, timeRewrites := "", 0
		for _, imp := range f.Imports {
			p := strings.Trim(imp.Path.Value, "`\"")
			if p == "time" {
				timeName = "time"
				if imp.Name != nil {
					timeName = imp.Name.Name
				}
				if timeName == "_" || timeName == "." || !clockSeam {
					timeName = ""
				}
			}
			if p == "sync" || p == "sync/atomic" {
				d.SyncImports = append(d.SyncImports, rel+":"+p)
				importsSync = true
			}
		}

		// The channel rewrite: in a tree without go statements every party of a channel operation is a task of
		// the simulator, so `ch <- v` and `<-ch` outside select become loops around a non-blocking select that
		// yield to the scheduler while the operation cannot proceed (a task descheduled with the buffer in its
		// hand cannot deadlock the simulation), and a select with a default clause cannot block at all.
		chanRewrite := rewrite && !treeHasGo
		chanSkip := map[ast.Node]bool{} // communication statements of select clauses: left as they are
		chanTwo := map[ast.Node]bool{}  // receives in a two-value context (v, ok := <-ch)
		unparen := func(e ast.Expr) ast.Expr {
			for {
				p, ok := e.(*ast.ParenExpr)
				if !ok {
					return e
				}
				e = p.X
			}
		}
		markTwo := func(nl int, rhs []ast.Expr) {
			if nl == 2 && len(rhs) == 1 {
				if u, ok := unparen(rhs[0]).(*ast.UnaryExpr); ok && u.Op == token.ARROW {
					chanTwo[u] = true
				}
			}
		}
		var curFunc string
		var visitBlock func(list []ast.Stmt, first bool)
		addSite := func(st ast.Stmt, first bool) {
			pos := st.Pos()
			id := len(d.SiteTable)
			s := Site{ID: id, File: rel, Line: tf.Line(pos), Func: curFunc, FuncFirst: first}
			ast.Inspect(st, func(n ast.Node) bool {
				if _, isLit := n.(*ast.FuncLit); isLit {
					return false
				}
				if idn, ok := n.(*ast.Ident); ok && pkgVars[dir][idn.Name] {
					s.Global = true
					if pkgMut[dir][idn.Name] {
						s.Hot = true
					}
				}
				switch cn := n.(type) {
				case *ast.SendStmt, *ast.SelectStmt:
					s.Global, s.Hot = true, true // a channel operation is a synchronisation like a lock or an atomic
				case *ast.UnaryExpr:
					if cn.Op == token.ARROW {
						s.Global, s.Hot = true, true
					}
				}
				if sel, ok := n.(*ast.SelectorExpr); ok && syncishSelector[sel.Sel.Name] {
					// a synchronisation or atomic access: windows between two of these are where
					// atomicity violations live, so the global-biased strategy prefers to switch here
					s.Global = true
					if importsSync {
						s.Hot = true // (x.Get, x.Add, ... in a file that imports neither sync nor sync/atomic is something else)
					}
				}
				return true
			})
			d.SiteTable = append(d.SiteTable, s)
			ins = append(ins, insertion{off: tf.Offset(pos), text: fmt.Sprintf("zzSimhook.Yield(%d); ", id)})
		}
		// rewriteStmt applies the Lock / Once.Do / Gosched rewrites to a statement that is an element of a
		// statement list (never to the init or post statement of an if / for / switch, where inserting further
		// statements would not be Go).
		rewriteStmt := func(st ast.Stmt) {
			x, ok := st.(*ast.ExprStmt)
			if !ok || !rewrite {
				return
			}
			call, ok := x.X.(*ast.CallExpr)
			if !ok {
				return
			}
			sel, ok := call.Fun.(*ast.SelectorExpr)
			if !ok {
				return
			}
			recv := ""
			if simpleRecv(sel.X) && !importNames[rootIdent(sel.X)] {
				recv = string(src[tf.Offset(sel.X.Pos()):tf.Offset(sel.X.End())])
				if strings.ContainsAny(recv, "\n\r") {
					recv = ""
				}
			}
			switch {
			case (sel.Sel.Name == "Lock" || sel.Sel.Name == "RLock") && len(call.Args) == 0 && recv != "":
				// x.Lock() becomes: if !zzSimhook.CoopLock(&(x), false) { x.Lock() }.  CoopLock finds out at run time
				// whether x offers TryLock (sync.Mutex, sync.RWMutex, a struct embedding one, a sync.Locker holding
				// one); if so it acquires the lock in a loop that yields to the simulated scheduler while the lock is
				// taken, otherwise it reports false and the original statement runs (a lock of the tree's own making).
				ins = append(ins, insertion{off: tf.Offset(x.Pos()), text: fmt.Sprintf("if !zzSimhook.CoopLock(&(%s), %v) { ", recv, sel.Sel.Name == "RLock")})
				ins = append(ins, insertion{off: tf.Offset(x.End()), text: " }"})
				d.LockRewrites++
			case sel.Sel.Name == "Do" && len(call.Args) == 1:
				// sync.Once holds a mutex while f runs.  The statement is put behind a cooperative gate (one per Once
				// object where the receiver is a plain variable or field, else one shared gate; owned by a task,
				// re-entrant): a task that arrives while another task is inside yields to the scheduler instead of
				// blocking for real on the Once's mutex with the token in its hand; f itself stays preemptible.
				key := "0"
				if recv != "" {
					key = fmt.Sprintf("zzSimhook.OnceKey(&(%s))", recv)
				}
				ins = append(ins, insertion{off: tf.Offset(x.Pos()), text: fmt.Sprintf("func() { zzG := %s; for !zzSimhook.Enter(zzG) { zzSimhook.Blocked() }; defer zzSimhook.Leave(zzG); ", key)})
				ins = append(ins, insertion{off: tf.Offset(x.End()), text: " }()"})
				d.OnceWraps++
			case sel.Sel.Name == "Put" && len(call.Args) == 1 && recv != "" && importsSync:
				// sync.Pool may drop any item at any time: the simulator makes it do so now and then (x is probed at
				// run time; for anything but a sync.Pool the statement runs unchanged)
				arg := string(src[tf.Offset(call.Args[0].Pos()):tf.Offset(call.Args[0].End())])
				if strings.ContainsAny(arg, "\n\r") || importNames[rootIdent(sel.X)] {
					break
				}
				// (the argument is evaluated exactly once either way: it may have side effects)
				eval := "_ = " + arg
				if pureExpr(call.Args[0]) {
					eval = "" // nothing to evaluate (and `_ = nil` would not compile)
				}
				ins = append(ins, insertion{off: tf.Offset(x.Pos()), text: fmt.Sprintf("if zzSimhook.PoolDrop(&(%s)) { %s } else { ", recv, eval)})
				ins = append(ins, insertion{off: tf.Offset(x.End()), text: " }"})
				d.PoolSites++
			case isGosched(call):
				{
					// a hand-written wait loop: tell the scheduler that this task is waiting for another one
					ins = append(ins, insertion{off: tf.Offset(x.Pos()), text: "zzSimhook.Waiting(); "})
					d.WaitHints++
				}
			}
		}
		visitBlock = func(list []ast.Stmt, first bool) {
			for i, st := range list {
				switch st.(type) {
				case *ast.CaseClause, *ast.CommClause:
					// body of a switch/select visited as a block: no statement may precede a clause
				default:
					addSite(st, first && i == 0)
					rewriteStmt(st)
				}
			}
		}
		var walk func(n ast.Node) bool
		walk = func(n ast.Node) bool {
			switch x := n.(type) {
			case *ast.FuncDecl:
				prev := curFunc
				curFunc = funcName(x)
				if x.Body != nil {
					visitBlock(x.Body.List, true)
					for _, st := range x.Body.List {
						ast.Inspect(st, walk)
					}
				}
				curFunc = prev
				return false
			case *ast.FuncLit:
				prev := curFunc
				curFunc = curFunc + ".func"
				visitBlock(x.Body.List, true)
				for _, st := range x.Body.List {
					ast.Inspect(st, walk)
				}
				curFunc = prev
				return false
			case *ast.BlockStmt:
				visitBlock(x.List, false)
			case *ast.CallExpr:
				if sel, ok := x.Fun.(*ast.SelectorExpr); ok && rewrite && importsSync && sel.Sel.Name == "Get" && len(x.Args) == 0 && simpleRecv(sel.X) {
					recv := string(src[tf.Offset(sel.X.Pos()):tf.Offset(sel.X.End())])
					if !strings.ContainsAny(recv, "\n\r") && !importNames[rootIdent(sel.X)] {
						// x.Get() may find the pool empty at any time (another processor's cache, a collection): the
						// simulator makes it so now and then
						// x.Get() becomes zzSimhook.PoolGet(&(x), x.Get): the static type of the result stays what it was
						ins = append(ins, insertion{off: tf.Offset(x.Pos()), text: fmt.Sprintf("zzSimhook.PoolGet(&(%s), ", recv)})
						ins = append(ins, insertion{off: tf.Offset(x.Lparen), text: ")", del: tf.Offset(x.Rparen) + 1 - tf.Offset(x.Lparen)})
						d.PoolSites++
					}
				}
			case *ast.BinaryExpr:
				if x.Op == token.MUL && timeName != "" {
					// N * time.Unit: a duration the tree compares the clock with
					for _, pair := range [][2]ast.Expr{{x.X, x.Y}, {x.Y, x.X}} {
						lit, ok1 := pair[0].(*ast.BasicLit)
						sel, ok2 := pair[1].(*ast.SelectorExpr)
						if !ok1 || !ok2 || lit.Kind != token.INT {
							continue
						}
						if id, ok := sel.X.(*ast.Ident); ok && id.Name == timeName && timeUnits[sel.Sel.Name] > 0 {
							if n, err := strconv.ParseInt(lit.Value, 0, 64); err == nil && n > 0 && n < 1<<20 {
								clockScales[n*timeUnits[sel.Sel.Name]] = true
							}
						}
					}
				}
			case *ast.ForStmt:
				if es, ok := x.Post.(*ast.ExprStmt); ok && rewrite && isGosched(es.X) {
					// for ; cond; runtime.Gosched() { }: the wait hint goes to the top of the body
					ins = append(ins, insertion{off: tf.Offset(x.Body.Lbrace) + 1, text: " zzSimhook.Waiting();"})
					d.WaitHints++
				}
			case *ast.CaseClause:
				visitBlock(x.Body, false)
			case *ast.CommClause:
				visitBlock(x.Body, false)
			case *ast.GoStmt:
				d.GoStmts++
				d.BlockingSync = append(d.BlockingSync, fmt.Sprintf("%s:%d go statement", rel, tf.Line(x.Pos())))
			case *ast.AssignStmt:
				markTwo(len(x.Lhs), x.Rhs)
			case *ast.ValueSpec:
				markTwo(len(x.Names), x.Values)
			case *ast.SelectStmt:
				d.ChanOps++
				hasDefault := false
				for _, c := range x.Body.List {
					cc, ok := c.(*ast.CommClause)
					if !ok {
						continue
					}
					switch cs := cc.Comm.(type) {
					case nil:
						hasDefault = true
					case *ast.SendStmt:
						chanSkip[cs] = true
					case *ast.ExprStmt:
						chanSkip[unparen(cs.X)] = true
					case *ast.AssignStmt:
						if len(cs.Rhs) == 1 {
							chanSkip[unparen(cs.Rhs[0])] = true
						}
					}
				}
				if chanRewrite && hasDefault {
					d.ChanCoop++
				} else {
					d.BlockingSync = append(d.BlockingSync, fmt.Sprintf("%s:%d select", rel, tf.Line(x.Pos())))
				}
			case *ast.SendStmt:
				d.ChanOps++
				switch {
				case chanSkip[x]:
					// part of a select, which has been judged as a whole
				case chanRewrite:
					ins = append(ins, insertion{off: tf.Offset(x.Pos()), text: "zzSimhook.CoopSendTo("},
						insertion{off: tf.Offset(x.Arrow), text: ")(", del: 2}, // (v is then assigned to T like in a send: no inference from v)
						insertion{off: tf.Offset(x.End()), text: ")"})
					d.ChanCoop++
				default:
					d.BlockingSync = append(d.BlockingSync, fmt.Sprintf("%s:%d channel send", rel, tf.Line(x.Pos())))
				}
			case *ast.UnaryExpr:
				if x.Op == token.ARROW {
					d.ChanOps++
					switch {
					case chanSkip[x]:
					case chanRewrite:
						fn := "zzSimhook.CoopRecv("
						if chanTwo[x] {
							fn = "zzSimhook.CoopRecv2("
						}
						ins = append(ins, insertion{off: tf.Offset(x.Pos()), text: fn, del: 2},
							insertion{off: tf.Offset(x.End()), text: ")"})
						d.ChanCoop++
					default:
						d.BlockingSync = append(d.BlockingSync, fmt.Sprintf("%s:%d channel receive", rel, tf.Line(x.Pos())))
					}
				}
			case *ast.ChanType:
				d.ChanOps++
				if !chanRewrite {
					d.BlockingSync = append(d.BlockingSync, fmt.Sprintf("%s:%d channel type", rel, tf.Line(x.Pos())))
				}
			case *ast.SelectorExpr:
				if id, ok := x.X.(*ast.Ident); ok && timeName != "" && id.Name == timeName && id.Obj == nil {
					switch x.Sel.Name {
					case "Now", "Since", "Until", "Sleep":
						if rewrite {
							// the clock seam: the tree reads the simulated clock (same signatures in the hook package)
							ins = append(ins, insertion{off: tf.Offset(id.Pos()), text: "zzSimhook", del: len(id.Name)})
							timeRewrites++
							d.ClockReads++
						}
					case "Nanosecond", "Microsecond", "Millisecond", "Second", "Minute", "Hour":
						clockScales[timeUnits[x.Sel.Name]] = true
					case "After", "AfterFunc", "NewTimer", "NewTicker", "Tick":
						d.Timers = append(d.Timers, fmt.Sprintf("%s:%d time.%s", rel, tf.Line(x.Pos()), x.Sel.Name))
					}
				}
				if id, ok := x.X.(*ast.Ident); ok && id.Name == "sync" {
					switch x.Sel.Name {
					case "Pool", "Map":
						// never hold a lock across user code: cannot block a descheduled task's peers
					case "Mutex", "RWMutex", "Once", "Locker":
						if rewrite {
							d.SoftSync = append(d.SoftSync, fmt.Sprintf("%s:%d sync.%s", rel, tf.Line(x.Pos()), x.Sel.Name))
						} else {
							d.BlockingSync = append(d.BlockingSync, fmt.Sprintf("%s:%d sync.%s", rel, tf.Line(x.Pos()), x.Sel.Name))
						}
					default:
						d.BlockingSync = append(d.BlockingSync, fmt.Sprintf("%s:%d sync.%s", rel, tf.Line(x.Pos()), x.Sel.Name))
					}
				}
			}
			return true
		}
		for _, decl := range f.Decls {
			ast.Inspect(decl, walk)
		}

		out := src
		if len(ins) > 0 {
			// import right after the package clause, on the same line
			ins = append(ins, insertion{off: tf.Offset(f.Name.End()), text: fmt.Sprintf("; import zzSimhook %q", hookImport)})
			sort.SliceStable(ins, func(i, j int) bool { return ins[i].off < ins[j].off })
			var b bytes.Buffer
			last := 0
			for _, in := range ins {
				if in.off < last {
					continue // inside a replaced stretch (cannot happen with the rewrites in use)
				}
				b.Write(src[last:in.off])
				b.WriteString(in.text)
				last = in.off + in.del
			}
			b.Write(src[last:])
			if timeRewrites > 0 {
				// the file may have no other use of the package left
				fmt.Fprintf(&b, "\nvar _ = %s.Now\n", timeName)
			}
			out = b.Bytes()
		}
		if err := writeFile(filepath.Join(dstDir, rel), out); err != nil {
			return nil, err
		}
		d.Files++
	}
	d.Sites = len(d.SiteTable)
	d.OpOnly = len(d.BlockingSync) > 0
	sort.Strings(d.BlockingSync)

	// hook package
	var hb bytes.Buffer
	hb.WriteString("// Code generated by the verification instrumenter. DO NOT EDIT.\n\n")
	hb.WriteString("// Package zz_simhook carries the scheduler hook of the deterministic simulation.\n")
	hb.WriteString("package zz_simhook\n\nimport (\n\t\"os\"\n\t\"reflect\"\n\t\"sync\"\n\t\"time\"\n\t\"unsafe\"\n)\n\n")
	hb.WriteString(hookLockSrc)
	hb.WriteString("// Hook is called before every statement of the instrumented module when non-nil.\n")
	hb.WriteString("var Hook func(site int)\n\n")
	hb.WriteString("// Yield is the generated call target.\n")
	hb.WriteString("func Yield(site int) {\n\tif Hook != nil {\n\t\tHook(site)\n\t}\n}\n\n")
	hb.WriteString(hookChanSrc)
	hb.WriteString("// Blocked is called from a rewritten Lock loop: the lock is held by a descheduled task.\n")
	hb.WriteString("func Blocked() {\n\tif Hook != nil {\n\t\tHook(-2)\n\t}\n}\n\n")
	hb.WriteString("// Waiting is called before a runtime.Gosched() of the instrumented module (a hand-written wait loop).\n")
	hb.WriteString("func Waiting() {\n\tif Hook != nil {\n\t\tHook(-3)\n\t}\n}\n\n")
	hb.WriteString("// gates serialise the x.Do(f) statements of the instrumented module cooperatively (see Enter).\nvar gates [64]struct {\n\tid    int\n\towner int\n\tdepth int\n}\n\n")
	hb.WriteString("// CurTask is the simulated task that holds the token (maintained by the harness).\nvar CurTask int\n\n")
	hb.WriteString("// Enter tries to pass the gate of a wrapped x.Do(f) statement.  Exactly one simulated task runs at a time,\n// so plain variables are enough; outside a simulation the gate is always open.  The gate is re-entrant for\n// the task that holds it (f may reach the same statement again: recursion, or a method that is merely called Do).\n//\n//go:norace\nfunc Enter(id int) bool {\n\tif Hook == nil || !Active || (IsTask != nil && !IsTask()) {\n\t\treturn true\n\t}\n\tfree := -1\n\tfor i := range gates {\n\t\tif gates[i].depth > 0 && gates[i].id == id {\n\t\t\tif gates[i].owner == CurTask {\n\t\t\t\tgates[i].depth++\n\t\t\t\treturn true\n\t\t\t}\n\t\t\treturn false\n\t\t}\n\t\tif gates[i].depth == 0 && free < 0 {\n\t\t\tfree = i\n\t\t}\n\t}\n\tif free >= 0 {\n\t\tgates[free].id, gates[free].owner, gates[free].depth = id, CurTask, 1\n\t}\n\treturn true\n}\n\n")
	hb.WriteString("// Leave undoes one Enter.\n//\n//go:norace\nfunc Leave(id int) {\n\tif Hook == nil || !Active || (IsTask != nil && !IsTask()) {\n\t\treturn\n\t}\n\tfor i := range gates {\n\t\tif gates[i].depth > 0 && gates[i].id == id && gates[i].owner == CurTask {\n\t\t\tgates[i].depth--\n\t\t\treturn\n\t\t}\n\t}\n}\n\n")
	hb.WriteString("// ResetGates opens every gate (called by the harness between runs).\n//\n//go:norace\nfunc ResetGates() {\n\tfor i := range gates {\n\t\tgates[i].depth = 0\n\t}\n\tfor i := range wrPend {\n\t\twrPend[i].m, wrPend[i].n = nil, 0\n\t}\n}\n\n")
	hb.WriteString("// Active is set by the harness around the concurrent phase of a run.\nvar Active bool\n\n// NoPreempt is kept for compatibility (always 0).\nvar NoPreempt int\n\n")
	hb.WriteString("// SiteInfo describes one yield site.\ntype SiteInfo struct {\n\tFile string\n\tLine int\n\tFunc string\n\tFuncFirst bool\n\tGlobal bool\n\tHot bool\n}\n\n")
	fmt.Fprintf(&hb, "// OwnLockTypes: types of the module that declare Lock / RLock / TryLock methods themselves.\nvar OwnLockTypes = %#v\n\n", append([]string{}, d.OwnLockTypes...))
	fmt.Fprintf(&hb, "// ExactLocks: the module declares Lock methods of its own; only receivers that are exactly a sync mutex are acquired cooperatively.\nconst ExactLocks = %v\n\n", len(d.OwnLockMethods) > 0)
	for sc := range clockScales {
		d.ClockScales = append(d.ClockScales, sc)
	}
	sort.Slice(d.ClockScales, func(i, j int) bool { return d.ClockScales[i] < d.ClockScales[j] })
	fmt.Fprintf(&hb, "// PoolSites is the number of Get/Put expressions behind the pool-miss fault.\nconst PoolSites = %d\n\n", d.PoolSites)
	fmt.Fprintf(&hb, "// ClockScales: the durations (nanoseconds) the module's source mentions; the simulated clock jumps by multiples of them.\nvar ClockScales = %#v\n\n", append([]int64{}, d.ClockScales...))
	fmt.Fprintf(&hb, "// ClockSites is the number of clock expressions of the module redirected to the simulated clock.\nconst ClockSites = %d\n\n", d.ClockReads)
	fmt.Fprintf(&hb, "// OpOnly is set when the module contains blocking synchronisation of its own.\nconst OpOnly = %v\n\n", d.OpOnly)
	hb.WriteString("// Sites is the table of generated yield sites.\nvar Sites = [...]SiteInfo{\n")
	for _, s := range d.SiteTable {
		fmt.Fprintf(&hb, "\t{%q, %d, %q, %v, %v, %v},\n", s.File, s.Line, s.Func, s.FuncFirst, s.Global, s.Hot)
	}
	hb.WriteString("}\n")
	if err := writeFile(filepath.Join(dstDir, HookPkgDir, "hook.go"), hb.Bytes()); err != nil {
		return nil, err
	}
	dj, _ := json.MarshalIndent(d, "", " ")
	if err := writeFile(filepath.Join(dstDir, HookPkgDir, "descriptor.json"), dj); err != nil {
		return nil, err
	}
	return d, nil
}

// hookLockSrc is the part of the hook package behind the rewritten Lock and Do statements.
const hookLockSrc = `// CoopLock acquires the lock p points to cooperatively: while the lock is taken it yields to the simulated
// scheduler instead of blocking the only running task on a lock held by a descheduled one.  It reports false,
// having done nothing, when the lock offers no TryLock / TryRLock (the caller then runs the original statement).
func CoopLock(p interface{}, read bool) bool {
	try := tryFunc(p, read)
	if try == nil {
		return false
	}
	if m := rwOf(p); m != nil && Hook != nil && Active && (IsTask == nil || IsTask()) {
		// sync.RWMutex: "a blocked Lock call excludes new readers from acquiring the lock".  TryLock does not
		// announce a waiting writer, so the simulator keeps that book itself: a recursive read lock taken while
		// another task waits for the write lock blocks here as it does in production.
		if read {
			for wrPending(m, 0) > 0 || !try() {
				Blocked()
			}
		} else if !try() {
			wrPending(m, 1)
			for !try() {
				Blocked()
			}
			wrPending(m, -1)
		}
		return true
	}
	for !try() {
		Blocked()
	}
	return true
}

func rwOf(p interface{}) *sync.RWMutex {
	switch v := p.(type) {
	case *sync.RWMutex:
		return v
	case **sync.RWMutex:
		return *v
	}
	// a struct that embeds a sync.RWMutex (var cache struct { sync.RWMutex; ... }; cache.RLock())
	v := reflect.ValueOf(p)
	if v.Kind() != reflect.Ptr || v.IsNil() {
		return nil
	}
	if e := v.Elem(); e.Kind() == reflect.Ptr {
		if e.IsNil() {
			return nil
		}
		v = e
	}
	return embeddedRW(v.Elem(), 0)
}

func embeddedRW(v reflect.Value, depth int) *sync.RWMutex {
	if depth > 3 || v.Kind() != reflect.Struct || !v.CanAddr() {
		return nil
	}
	t := v.Type()
	for i := 0; i < t.NumField(); i++ {
		f := t.Field(i)
		if !f.Anonymous {
			continue
		}
		switch f.Type {
		case rwMutexType:
			return (*sync.RWMutex)(unsafe.Pointer(v.Field(i).UnsafeAddr()))
		case reflect.PtrTo(rwMutexType):
			if v.Field(i).IsNil() {
				return nil
			}
			return (*sync.RWMutex)(unsafe.Pointer(v.Field(i).Pointer()))
		case mutexType, reflect.PtrTo(mutexType):
			return nil // the promoted Lock is this one's
		}
		fv := v.Field(i)
		if fv.Kind() == reflect.Ptr {
			if fv.IsNil() {
				continue
			}
			fv = fv.Elem()
		}
		if m := embeddedRW(fv, depth+1); m != nil {
			return m
		}
	}
	return nil
}

var wrPend [32]struct {
	m *sync.RWMutex
	n int
}

// wrPending adds delta to the number of tasks waiting for the write lock of m and returns it (one task runs at a
// time: plain memory, invisible to the race detector, so the book-keeping orders nobody).
//
//go:norace
func wrPending(m *sync.RWMutex, delta int) int {
	free := -1
	for i := range wrPend {
		if wrPend[i].m == m {
			wrPend[i].n += delta
			n := wrPend[i].n
			if n <= 0 {
				wrPend[i].m, wrPend[i].n = nil, 0
			}
			return n
		}
		if wrPend[i].m == nil && free < 0 {
			free = i
		}
	}
	if delta > 0 && free >= 0 {
		wrPend[free].m, wrPend[free].n = m, delta
		return delta
	}
	return 0
}

func tryFunc(p interface{}, read bool) func() bool {
	switch v := p.(type) {
	case *sync.Mutex:
		if !read {
			return v.TryLock
		}
		return nil
	case *sync.RWMutex:
		if read {
			return v.TryRLock
		}
		return v.TryLock
	case **sync.Mutex:
		if !read && *v != nil {
			return (*v).TryLock
		}
		return nil
	case **sync.RWMutex:
		if *v == nil {
			return nil
		}
		if read {
			return (*v).TryRLock
		}
		return (*v).TryLock
	case *sync.Locker:
		if *v == nil {
			return nil
		}
		if rv := reflect.ValueOf(*v); rv.Kind() == reflect.Ptr && rv.Type().String() == "*sync.rlocker" {
			// (*sync.RWMutex).RLocker(): the read side of an RWMutex behind the Locker interface
			return (*sync.RWMutex)(unsafe.Pointer(rv.Pointer())).TryRLock
		}
		if ExactLocks {
			switch (*v).(type) {
			case *sync.Mutex, *sync.RWMutex:
			default:
				return nil
			}
		}
		return tryFuncOf(*v, read)
	}
	// x is a struct that embeds a sync mutex (s.Lock() with s a T or a *T): acquire it through the promoted TryLock,
	// unless the module gives that type a Lock method of its own, which may do more than lock
	v := reflect.ValueOf(p)
	if v.Kind() != reflect.Ptr || v.IsNil() {
		return nil
	}
	if e := v.Elem(); e.Kind() == reflect.Ptr {
		if e.IsNil() {
			return nil
		}
		v = e
	}
	t := v.Type().Elem()
	if t.Kind() != reflect.Struct {
		return nil
	}
	base := t.Name()
	if i := indexByte(base, '['); i >= 0 {
		base = base[:i] // instantiated generic type
	}
	for _, n := range OwnLockTypes {
		if n == base {
			return nil
		}
	}
	for _, n := range OwnLockTypes {
		if n == base {
			return nil
		}
	}
	for i := 0; i < t.NumField(); i++ {
		// struct { sync.Locker; ... }: the embedded interface holds the mutex
		if f := t.Field(i); f.Anonymous && f.Type == lockerType && f.PkgPath == "" {
			switch m := v.Elem().Field(i).Interface().(type) {
			case *sync.Mutex:
				if !read {
					return m.TryLock
				}
			case *sync.RWMutex:
				if read {
					return m.TryRLock
				}
				return m.TryLock
			}
			return nil
		}
	}
	if !embedsMutex(t, 0) {
		return nil
	}
	return tryFuncOf(v.Interface(), read)
}

// embedsMutex: the struct type embeds a sync mutex, directly or through embedded structs none of which has a Lock
// method of the module's own making.
func embedsMutex(t reflect.Type, depth int) bool {
	if depth > 3 || t.Kind() != reflect.Struct {
		return false
	}
	base := t.Name()
	if i := indexByte(base, '['); i >= 0 {
		base = base[:i]
	}
	for _, n := range OwnLockTypes {
		if n == base && base != "" {
			return false
		}
	}
	for i := 0; i < t.NumField(); i++ {
		f := t.Field(i)
		if !f.Anonymous {
			continue
		}
		switch f.Type {
		case mutexType, rwMutexType, reflect.PtrTo(mutexType), reflect.PtrTo(rwMutexType):
			return true
		}
		ft := f.Type
		if ft.Kind() == reflect.Ptr {
			ft = ft.Elem()
		}
		if embedsMutex(ft, depth+1) {
			return true
		}
	}
	return false
}

var (
	mutexType   = reflect.TypeOf(sync.Mutex{})
	rwMutexType = reflect.TypeOf(sync.RWMutex{})
	lockerType  = reflect.TypeOf((*sync.Locker)(nil)).Elem()
)

func indexByte(s string, c byte) int {
	for i := 0; i < len(s); i++ {
		if s[i] == c {
			return i
		}
	}
	return -1
}

func tryFuncOf(p interface{}, read bool) func() bool {
	if read {
		if t, ok := p.(interface{ TryRLock() bool }); ok {
			return t.TryRLock
		}
		return nil
	}
	if t, ok := p.(interface{ TryLock() bool }); ok {
		return t.TryLock
	}
	return nil
}

// The simulated clock is the real clock plus ClockOffset (nanoseconds, never negative, never decreasing): it is never
// behind any real time that reaches the module by another route (package initialisers, tickers, context deadlines,
// stamps made by a dependency), so an age computed across the two is never negative; the harness moves it forward
// in jumps.  ClockOffset is a plain variable written by whichever simulated task holds the token.
var ClockOffset = initialClockOffset()

// initialClockOffset: SIM_CLOCK_OFFSET (seconds) lets a worker process start on another day than its siblings; package
// initialisers of the module see it too.
func initialClockOffset() int64 {
	var n int64
	for _, c := range os.Getenv("SIM_CLOCK_OFFSET") {
		if c < '0' || c > '9' {
			return 0
		}
		n = n*10 + int64(c-'0')
	}
	return n * 1e9
}

// ClockReads counts reads of the simulated clock.
var ClockReads uint64

// Now stands in for time.Now in the instrumented module.
//
//go:norace
func Now() time.Time {
	ClockReads++
	if ClockOffset == 0 {
		return time.Now()
	}
	return time.Now().Add(time.Duration(ClockOffset))
}

// Since stands in for time.Since.
//
//go:norace
func Since(t time.Time) time.Duration { return Now().Sub(t) }

// Until stands in for time.Until.
//
//go:norace
func Until(t time.Time) time.Duration { return t.Sub(Now()) }

// Sleep stands in for time.Sleep: for a simulated task simulated time passes and the other tasks get a chance to
// run; any other goroutine sleeps for real.
func Sleep(d time.Duration) {
	if SleepFunc == nil || !SleepFunc(d) {
		time.Sleep(d)
	}
}

// PoolFault is installed by the harness: a seeded coin, true for "this Get finds the pool empty" / "this Put is
// dropped" - both are things sync.Pool may do at any time (per-processor caches, collections).
var PoolFault func() bool

func poolOf(p interface{}) *sync.Pool {
	switch v := p.(type) {
	case *sync.Pool:
		return v
	case **sync.Pool:
		return *v
	}
	return nil
}

// PoolGet stands in for x.Get() of the instrumented module (real is the method value x.Get; T is interface{} when x is
// a sync.Pool and whatever the method returns otherwise).
func PoolGet[T any](p interface{}, real func() T) T {
	if pp := poolOf(p); pp != nil && PoolFault != nil && PoolFault() {
		var zero T
		if pp.New != nil {
			if v, ok := pp.New().(T); ok {
				return v
			}
		}
		return zero
	}
	return real()
}

// PoolDrop reports whether the x.Put(v) statement it guards is to be skipped.
func PoolDrop(p interface{}) bool {
	return poolOf(p) != nil && PoolFault != nil && PoolFault()
}

// IsTask is installed by the harness: it reports whether the calling goroutine is the simulated task that holds
// the token (gates are for tasks only; any other goroutine passes them as in production).
var IsTask func() bool

// SleepFunc is installed by the harness: it lets simulated time pass for the simulated task that calls it and
// reports false for any other goroutine.
var SleepFunc func(d time.Duration) bool

// OnceKey identifies the sync.Once behind the receiver of a wrapped x.Do(f) statement (0: not a sync.Once
// that can be identified; such statements share one gate).
func OnceKey(p interface{}) int {
	switch v := p.(type) {
	case *sync.Once:
		return int(uintptr(unsafe.Pointer(v)))
	case **sync.Once:
		return int(uintptr(unsafe.Pointer(*v)))
	}
	return 0
}

`

func isErrSentinel(vs *ast.ValueSpec, i int) bool {
	if i >= len(vs.Values) {
		return false
	}
	call, ok := vs.Values[i].(*ast.CallExpr)
	if !ok {
		return false
	}
	sel, ok := call.Fun.(*ast.SelectorExpr)
	if !ok {
		return false
	}
	id, ok := sel.X.(*ast.Ident)
	return ok && id.Name == "errors" && sel.Sel.Name == "New"
}

// rootIdent returns the leftmost identifier of a selector / index / dereference chain ("" if there is none).
func rootIdent(e ast.Expr) string {
	for {
		switch x := e.(type) {
		case *ast.Ident:
			return x.Name
		case *ast.SelectorExpr:
			e = x.X
		case *ast.IndexExpr:
			e = x.X
		case *ast.StarExpr:
			e = x.X
		case *ast.ParenExpr:
			e = x.X
		default:
			return ""
		}
	}
}

// recvTypeName returns the name of a method receiver's type.
func recvTypeName(e ast.Expr) string {
	switch x := e.(type) {
	case *ast.Ident:
		return x.Name
	case *ast.StarExpr:
		return recvTypeName(x.X)
	case *ast.ParenExpr:
		return recvTypeName(x.X)
	case *ast.IndexExpr:
		return recvTypeName(x.X)
	case *ast.IndexListExpr:
		return recvTypeName(x.X)
	}
	return ""
}

// isGosched reports whether e is the call runtime.Gosched().
func isGosched(e ast.Expr) bool {
	call, ok := e.(*ast.CallExpr)
	if !ok || len(call.Args) != 0 {
		return false
	}
	sel, ok := call.Fun.(*ast.SelectorExpr)
	if !ok || sel.Sel.Name != "Gosched" {
		return false
	}
	id, ok := sel.X.(*ast.Ident)
	return ok && id.Name == "runtime"
}

// simpleRecv reports whether e is free of side effects and (normally) addressable: identifiers, field
// selections, dereferences and indexing with such operands.
func simpleRecv(e ast.Expr) bool {
	switch x := e.(type) {
	case *ast.Ident:
		return x.Name != "_"
	case *ast.BasicLit:
		return x.Kind == token.INT
	case *ast.SelectorExpr:
		return simpleRecv(x.X)
	case *ast.StarExpr:
		return simpleRecv(x.X)
	case *ast.ParenExpr:
		return simpleRecv(x.X)
	case *ast.IndexExpr:
		return simpleRecv(x.X) && pureExpr(x.Index)
	}
	return false
}

// pureExpr reports whether e is free of calls, receives and other side effects (an index expression like h%n).
func pureExpr(e ast.Expr) bool {
	switch x := e.(type) {
	case *ast.Ident:
		return true
	case *ast.BasicLit:
		return true
	case *ast.ParenExpr:
		return pureExpr(x.X)
	case *ast.BinaryExpr:
		return pureExpr(x.X) && pureExpr(x.Y)
	case *ast.UnaryExpr:
		return x.Op != token.ARROW && x.Op != token.AND && pureExpr(x.X)
	case *ast.SelectorExpr:
		return pureExpr(x.X)
	case *ast.IndexExpr:
		return pureExpr(x.X) && pureExpr(x.Index)
	case *ast.StarExpr:
		return pureExpr(x.X)
	}
	return false
}

func funcName(fd *ast.FuncDecl) string {
	if fd.Recv != nil && len(fd.Recv.List) > 0 {
		t := fd.Recv.List[0].Type
		if st, ok := t.(*ast.StarExpr); ok {
			t = st.X
		}
		if id, ok := t.(*ast.Ident); ok {
			return id.Name + "." + fd.Name.Name
		}
	}
	return fd.Name.Name
}

func modulePath(gomod string) (string, error) {
	b, err := os.ReadFile(gomod)
	if err != nil {
		return "", err
	}
	for _, ln := range strings.Split(string(b), "\n") {
		ln = strings.TrimSpace(ln)
		if strings.HasPrefix(ln, "module ") {
			return strings.TrimSpace(strings.TrimPrefix(ln, "module ")), nil
		}
	}
	return "", fmt.Errorf("no module line in %s", gomod)
}

func copyFile(src, dst string) error {
	b, err := os.ReadFile(src)
	if err != nil {
		return err
	}
	return writeFile(dst, b)
}

func writeFile(dst string, b []byte) error {
	if err := os.MkdirAll(filepath.Dir(dst), 0o755); err != nil {
		return err
	}
	return os.WriteFile(dst, b, 0o644)
}

// hookChanSrc: cooperative channel operations (trees without go statements: every other party is a task).
// Site -4 ("Unbuffered"): on an unbuffered channel a non-blocking send succeeds only while a receiver is parked in
// the runtime and vice versa, so two polling ends would never meet although they always do in production (red team
// round 5, candidate 1: a false O9 alarm).  The harness ends a statement-granular worker there with exit 5 and the
// coordinator repeats the batch operation-granular, where nobody waits for a descheduled party.
const hookChanSrc = `// CoopSendTo(ch)(v) is ch <- v for a task of the simulator: while the send cannot proceed another task runs.
func CoopSendTo[T any](ch chan<- T) func(T) {
	return func(v T) {
		if Hook == nil {
			ch <- v
			return
		}
		if cap(ch) == 0 && ch != nil {
			Hook(-4) // a rendezvous: two polling ends never meet (see Unbuffered)
		}
		for {
			select {
			case ch <- v:
				return
			default:
				Blocked()
			}
		}
	}
}

// CoopRecv is <-ch for a task of the simulator.
func CoopRecv[T any](ch <-chan T) T {
	if Hook == nil {
		return <-ch
	}
	if cap(ch) == 0 && ch != nil {
		Hook(-4)
	}
	for {
		select {
		case v := <-ch:
			return v
		default:
			Blocked()
		}
	}
}

// CoopRecv2 is v, ok := <-ch for a task of the simulator.
func CoopRecv2[T any](ch <-chan T) (T, bool) {
	if Hook == nil {
		v, ok := <-ch
		return v, ok
	}
	if cap(ch) == 0 && ch != nil {
		Hook(-4)
	}
	for {
		select {
		case v, ok := <-ch:
			return v, ok
		default:
			Blocked()
		}
	}
}

`
