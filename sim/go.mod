module rtcpverif/sim

go 1.20
