package main

import (
	"encoding/json"
	"fmt"
	"os"
	"path/filepath"
	"regexp"
	"sort"
	"strings"
	"time"
)

// RaceClass classifies one race report by the operation wrappers in its two access stacks.
type RaceClass struct {
	Verdict bool // at least one access inside a verdict-bearing operation (vop*)
	Load    bool // at least one access inside a load operation (lop*) and none in a verdict-bearing one
	Harness bool // neither access inside any operation wrapper nor rtcp code: harness bug
	Frames  []string
	Key     string
}

var frameRe = regexp.MustCompile(`^\s+([A-Za-z0-9_./()*\-]+)\(\)\s*$`)
var fileRe = regexp.MustCompile(`^\s+(/\S+\.go):(\d+)`)

// splitRaceReports splits a race log into individual reports.
func splitRaceReports(log string) []string {
	var out []string
	parts := strings.Split(log, "WARNING: DATA RACE")
	for i, p := range parts {
		if i == 0 {
			continue
		}
		out = append(out, "WARNING: DATA RACE"+p)
	}
	return out
}

func classifyRace(report string, scratch string) RaceClass {
	var rc RaceClass
	// only the two access stacks: everything before the first "Goroutine " line
	body := report
	if i := strings.Index(body, "\nGoroutine "); i >= 0 {
		body = body[:i]
	}
	vop, lop, rtcpFrame := false, false, false
	var sites []string
	lines := strings.Split(body, "\n")
	for i, ln := range lines {
		m := frameRe.FindStringSubmatch(ln)
		if m == nil {
			continue
		}
		fn := m[1]
		rc.Frames = append(rc.Frames, fn)
		if strings.HasPrefix(fn, "main.vop") {
			vop = true
		}
		if strings.HasPrefix(fn, "main.lop") {
			lop = true
		}
		if strings.Contains(fn, "pion/rtcp.") && !strings.Contains(fn, "zz_simhook") {
			rtcpFrame = true
			if i+1 < len(lines) {
				if fm := fileRe.FindStringSubmatch(lines[i+1]); fm != nil {
					p := fm[1]
					if scratch != "" {
						p = strings.TrimPrefix(p, filepath.Join(scratch, "rtcp")+"/")
					}
					sites = append(sites, p+":"+fm[2])
				}
			}
		}
	}
	switch {
	case vop:
		rc.Verdict = true
	case lop:
		rc.Load = true
	case rtcpFrame:
		// rtcp code reached outside any wrapper (e.g. from a goroutine the package itself started): still the library
		rc.Verdict = true
	default:
		rc.Harness = true
	}
	sort.Strings(sites)
	rc.Key = "O1/race/" + strings.Join(uniq(sites), ",")
	return rc
}

func uniq(s []string) []string {
	var out []string
	for i, x := range s {
		if i == 0 || x != s[i-1] {
			out = append(out, x)
		}
	}
	return out
}

// KnownFindings is the committed list of recorded (unrepaired) defects and of repaired ones.
type KnownFindings struct {
	Findings []KnownFinding `json:"findings"`
	Fixed    []string       `json:"fixed"`
}

// KnownFinding suppresses exactly one violation signature.
type KnownFinding struct {
	Property string `json:"property"`
	Oracle   string `json:"oracle"`
	Op       string `json:"op"`
	Kind     string `json:"kind"`
	Contains string `json:"detail_contains,omitempty"`
	What     string `json:"what"`
}

func loadKnown() KnownFindings {
	var k KnownFindings
	b, err := os.ReadFile(filepath.Join(verifRoot(), "known_findings.json"))
	if err == nil {
		_ = json.Unmarshal(b, &k)
	}
	return k
}

func (k *KnownFindings) match(v *Violation) *KnownFinding {
	for i := range k.Findings {
		f := &k.Findings[i]
		if f.Property == "C18" && f.Oracle == v.Oracle && f.Op == v.Op && f.Kind == v.Kind &&
			(f.Contains == "" || strings.Contains(v.Expected+v.Actual+v.Detail, f.Contains)) {
			return f
		}
	}
	return nil
}

// genPrefix asks the (plain) worker for the explicit specs of runs 0..upto of a batch.
func genPrefix(b *Build, bt Batch, upto int) ([]*RunSpec, error) {
	args := append(batchArgs(bt), "-gen", "-upto", fmt.Sprint(upto))
	r := runWorkerRaw(b, args, 60*time.Second)
	if r.err != nil {
		return nil, fmt.Errorf("gen: %v: %s", r.err, r.stderr)
	}
	var specs []*RunSpec
	if err := json.Unmarshal([]byte(r.stdout), &specs); err != nil {
		return nil, err
	}
	return specs, nil
}

// replayOutcome is the result of executing a replay file in a fresh process.
type replayOutcome struct {
	failed   bool
	viol     *violEv
	raceLog  string
	races    []RaceClass
	exitCode int
	infra    string
}

func (o *replayOutcome) keys(scratch string) map[string]bool {
	ks := map[string]bool{}
	if o.viol != nil {
		for i := range o.viol.Violations {
			ks[o.viol.Violations[i].Key()] = true
		}
	}
	for _, rc := range o.races {
		if rc.Verdict {
			ks["O1/race"] = true
			ks[rc.Key] = true
		}
	}
	return ks
}

func writeJSON(path string, v interface{}) error {
	b, err := json.MarshalIndent(v, "", " ")
	if err != nil {
		return err
	}
	if err := os.MkdirAll(filepath.Dir(path), 0o755); err != nil {
		return err
	}
	return os.WriteFile(path, b, 0o644)
}

var replayCounter int

func execReplay(b *Build, rf *ReplayFile, race bool) *replayOutcome {
	replayCounter++
	tmp := filepath.Join(b.Scratch, fmt.Sprintf("cand-%d.json", replayCounter))
	if err := writeJSON(tmp, rf); err != nil {
		return &replayOutcome{infra: err.Error()}
	}
	defer os.Remove(tmp)
	prefix := filepath.Join(b.Scratch, fmt.Sprintf("race-replay-%d", replayCounter))
	rargs := []string{"-replay", tmp}
	if rf.Procs > 1 {
		rargs = append(rargs, "-procs", fmt.Sprint(rf.Procs))
	}
	r := runWorker(b, race, rargs, prefix, 120*time.Second)
	o := &replayOutcome{viol: r.Viol, raceLog: r.RaceLog, exitCode: r.ExitCode}
	for _, rep := range splitRaceReports(r.RaceLog) {
		o.races = append(o.races, classifyRace(rep, b.Scratch))
	}
	if r.TimedOut {
		o.infra = "replay timed out"
	} else if r.ExitCode != 0 && r.ExitCode != 3 && r.ExitCode != 66 {
		o.infra = fmt.Sprintf("replay exit %d: %s", r.ExitCode, tail(r.Stderr, 2000))
	}
	o.failed = r.Viol != nil && (len(r.Viol.Violations) > 0 || r.Viol.Race)
	return o
}

func tail(s string, n int) string {
	if len(s) <= n {
		return s
	}
	return s[len(s)-n:]
}

// sameFailure reports whether outcome o fails the way the original did.
func sameFailure(o *replayOutcome, want map[string]bool, scratch string) bool {
	if !o.failed || o.infra != "" {
		return false
	}
	for k := range o.keys(scratch) {
		if want[k] {
			return true
		}
	}
	return false
}

func cloneSpec(s *RunSpec) *RunSpec {
	c := *s
	c.Objects = append([]ObjSpec(nil), s.Objects...)
	c.Tasks = make([][]Op, len(s.Tasks))
	for i := range s.Tasks {
		c.Tasks[i] = append([]Op(nil), s.Tasks[i]...)
	}
	c.Sched.Replay = append([]SwRec(nil), s.Sched.Replay...)
	c.Sched.Prio = append([]int32(nil), s.Sched.Prio...)
	c.Sched.CP = append([]uint64(nil), s.Sched.CP...)
	return &c
}

// minimise shrinks the replay file while the same class of violation persists.
// Order: earlier runs of the batch; the schedule as a whole (no preemption);
// whole tasks; switch points; operations (disabled in place, so the (op, yield)
// addresses of the remaining switch points stay valid); switch points again;
// compaction (drop disabled entries, renumber switch points); unreferenced objects.
func minimise(b *Build, rf *ReplayFile, race bool, want map[string]bool, budget time.Duration, logf func(string, ...interface{})) *ReplayFile {
	deadline := time.Now().Add(budget)
	tries := 0
	try := func(c *ReplayFile) bool {
		if time.Now().After(deadline) {
			return false
		}
		tries++
		return sameFailure(execReplay(b, c, race), want, b.Scratch)
	}
	cur := rf
	last := func(f *ReplayFile) *RunSpec { return f.Runs[len(f.Runs)-1] }
	with := func(f *ReplayFile, s *RunSpec) *ReplayFile {
		c := *f
		c.Runs = append(append([]*RunSpec(nil), f.Runs[:len(f.Runs)-1]...), s)
		return &c
	}
	// 1. earlier runs of the batch
	if len(cur.Runs) > 1 {
		c := *cur
		c.Runs = []*RunSpec{last(cur)}
		if try(&c) {
			cur = &c
			logf("minimise: earlier runs of the batch are not needed")
		} else {
			for i := 0; i < len(cur.Runs)-1; {
				c := *cur
				c.Runs = append(append([]*RunSpec(nil), cur.Runs[:i]...), cur.Runs[i+1:]...)
				if try(&c) {
					cur = &c
				} else {
					i++
				}
			}
			logf("minimise: %d earlier run(s) of the batch are needed", len(cur.Runs)-1)
		}
	}
	// 2. no preemption at all
	{
		s := cloneSpec(last(cur))
		s.Sched.Strat = 5 // stratSeq
		s.Sched.Replay = nil
		s.Sched.GCRate = 0
		if c := with(cur, s); try(c) {
			cur = c
			logf("minimise: fails without any preemption (pure call-history violation)")
		}
	}
	// 3. whole tasks
	for t := 0; t < len(last(cur).Tasks); t++ {
		if len(last(cur).Tasks[t]) == 0 {
			continue
		}
		s := cloneSpec(last(cur))
		s.Tasks[t] = nil
		if c := with(cur, s); try(c) {
			cur = c
		}
	}
	ddSwitches := func() {
		if last(cur).Sched.Strat != 6 { // stratReplay
			return
		}
		chunk := (len(last(cur).Sched.Replay) + 1) / 2
		for chunk >= 1 && time.Now().Before(deadline) {
			removed := false
			for start := 0; start < len(last(cur).Sched.Replay); {
				sw := last(cur).Sched.Replay
				end := start + chunk
				if end > len(sw) {
					end = len(sw)
				}
				s := cloneSpec(last(cur))
				s.Sched.Replay = append(append([]SwRec(nil), sw[:start]...), sw[end:]...)
				if c := with(cur, s); try(c) {
					cur = c
					removed = true
				} else {
					start = end
				}
			}
			if chunk == 1 {
				break
			}
			if !removed {
				chunk /= 2
			} else if chunk > len(last(cur).Sched.Replay) {
				chunk = (len(last(cur).Sched.Replay) + 1) / 2
				if chunk < 1 {
					chunk = 1
				}
			}
		}
	}
	// 4-6. switch points and operations (disabled in place, ddmin per task), alternating until neither shrinks further
	enabled := func(p []Op) []int {
		var ix []int
		for i := range p {
			if p[i].K != 0 {
				ix = append(ix, i)
			}
		}
		return ix
	}
	ddOps := func() {
		for t := 0; t < len(last(cur).Tasks); t++ {
			chunk := (len(enabled(last(cur).Tasks[t])) + 1) / 2
			for chunk >= 1 && time.Now().Before(deadline) {
				removed := false
				pos := 0
				for {
					ix := enabled(last(cur).Tasks[t])
					if pos >= len(ix) {
						break
					}
					end := pos + chunk
					if end > len(ix) {
						end = len(ix)
					}
					s := cloneSpec(last(cur))
					for _, i := range ix[pos:end] {
						s.Tasks[t][i] = Op{K: 0, A: -1, B: -1}
					}
					if c := with(cur, s); try(c) {
						cur = c
						removed = true
					} else {
						pos = end
					}
				}
				if chunk == 1 {
					break
				}
				if !removed {
					chunk /= 2
				}
			}
		}
	}
	size := func() int {
		n := len(last(cur).Sched.Replay)
		for _, p := range last(cur).Tasks {
			n += len(enabled(p))
		}
		return n
	}
	for round := 0; round < 6 && time.Now().Before(deadline); round++ {
		before := size()
		ddSwitches()
		ddOps()
		if size() == before {
			break
		}
	}
	// 7. compaction: drop disabled entries and renumber switch points
	{
		s := cloneSpec(last(cur))
		remap := make([]map[uint32]uint32, len(s.Tasks))
		for t := range s.Tasks {
			remap[t] = map[uint32]uint32{}
			var np []Op
			for i, op := range s.Tasks[t] {
				if op.K != 0 {
					remap[t][uint32(i)] = uint32(len(np))
					np = append(np, op)
				}
			}
			s.Tasks[t] = np
		}
		ok := true
		for i := range s.Sched.Replay {
			r := &s.Sched.Replay[i]
			if int(r.T) < len(remap) {
				if n, found := remap[r.T][r.Op]; found {
					r.Op = n
				} else if !r.Forced {
					ok = false
				}
			}
		}
		if ok {
			if c := with(cur, s); try(c) {
				cur = c
			}
		}
	}
	// 8. objects that are no longer referenced
	{
		s := cloneSpec(last(cur))
		used := map[int]bool{}
		for _, p := range s.Tasks {
			for _, op := range p {
				used[op.A] = true
			}
		}
		var objs []ObjSpec
		for _, o := range s.Objects {
			if used[o.Slot] {
				objs = append(objs, o)
			}
		}
		if len(objs) < len(s.Objects) {
			s.Objects = objs
			if c := with(cur, s); try(c) {
				cur = c
			}
		}
	}
	logf("minimise: %d candidate executions", tries)
	out := *cur
	out.Minimised = true
	return &out
}
