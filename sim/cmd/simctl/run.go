package main

import (
	"bufio"
	"bytes"
	"context"
	"encoding/json"
	"fmt"
	"os"
	"os/exec"
	"path/filepath"
	"strings"
	"sync"
	"time"
)

// Batch is one worker process worth of work.
type Batch struct {
	ID      int
	Seed    uint64
	Runs    int
	Race    bool
	Tier    string
	NoCold  bool
	ForceOp bool // operation-granular scheduling for every run (retry after a stuck simulation)
	Procs   int  // GOMAXPROCS of the worker (0: 1)
}

// BatchResult is what a worker process reported.
type BatchResult struct {
	Batch    Batch
	Done     []doneEv
	Viol     *violEv
	End      *endEv
	ExitCode int
	TimedOut bool
	Stderr   string
	RaceLog  string
	WallS    float64
	LastSeed uint64
	LastRun  int
	Started  int
	// O8: the last run of the batch executed once more, alone, in a fresh worker process
	AloneChecked bool
	AloneRun     int    // which run (the last volume run of the batch if there is one, else the last run)
	AloneHash    string // its result digest ("" if that process did not complete the run)
	AloneNA      bool   // two history-free processes disagree with each other: O8 does not apply to this tree
}

type splitmix struct{ s uint64 }

func (r *splitmix) u64() uint64 {
	r.s += 0x9e3779b97f4a7c15
	z := r.s
	z = (z ^ (z >> 30)) * 0xbf58476d1ce4e5b9
	z = (z ^ (z >> 27)) * 0x94d049bb133111eb
	return z ^ (z >> 31)
}

func readRaceLogs(prefix string) string {
	matches, _ := filepath.Glob(prefix + ".*")
	var sb strings.Builder
	for _, m := range matches {
		if b, err := os.ReadFile(m); err == nil {
			sb.Write(b)
		}
		os.Remove(m)
	}
	return sb.String()
}

// runWorker runs one worker process with the given arguments and parses its event stream.
func runWorker(b *Build, race bool, args []string, raceLogPrefix string, timeout time.Duration) *BatchResult {
	procs := "1"
	if v := os.Getenv("SIM_GOMAXPROCS"); v != "" {
		procs = v
	}
	return runWorkerWith(b, race, args, raceLogPrefix, timeout, procs)
}

func runWorkerWith(b *Build, race bool, args []string, raceLogPrefix string, timeout time.Duration, procs string) *BatchResult {
	res := &BatchResult{}
	bin := b.Plain
	if race {
		bin = b.Race
	}
	ctx, cancel := context.WithTimeout(context.Background(), timeout)
	defer cancel()
	cmd := exec.CommandContext(ctx, bin, b.withHot(args)...)
	env := append(os.Environ(), "GOMAXPROCS="+procs)
	for i := 0; i+1 < len(args); i++ {
		if args[i] == "-procs" && os.Getenv("SIM_GOMAXPROCS") == "" {
			env = append(env, "GOMAXPROCS="+args[i+1])
		}
		if args[i] == "-clockoffset" {
			// package initialisers of the tree read the clock before main parses flags
			env = append(env, "SIM_CLOCK_OFFSET="+args[i+1])
		}
	}
	if race {
		env = append(env, "GORACE=log_path="+raceLogPrefix+" exitcode=66 history_size=3", "SIM_RACE_LOG="+raceLogPrefix)
	}
	cmd.Env = env
	var stderr bytes.Buffer
	cmd.Stderr = &stderr
	stdout, err := cmd.StdoutPipe()
	if err != nil {
		res.ExitCode = -1
		res.Stderr = err.Error()
		return res
	}
	t0 := time.Now()
	if err := cmd.Start(); err != nil {
		res.ExitCode = -1
		res.Stderr = err.Error()
		return res
	}
	sc := bufio.NewScanner(stdout)
	sc.Buffer(make([]byte, 1<<20), 1<<28)
	for sc.Scan() {
		line := sc.Bytes()
		var head struct {
			Ev string `json:"ev"`
		}
		if json.Unmarshal(line, &head) != nil {
			continue
		}
		switch head.Ev {
		case "start":
			var e startEv
			if json.Unmarshal(line, &e) == nil {
				res.LastSeed, res.LastRun = e.Seed, e.Run
				res.Started++
			}
		case "done":
			var e doneEv
			if json.Unmarshal(line, &e) == nil {
				res.Done = append(res.Done, e)
			}
		case "violation":
			var e violEv
			if err := json.Unmarshal(line, &e); err == nil {
				res.Viol = &e
			} else {
				res.Stderr += "bad violation event: " + err.Error() + "\n"
			}
		case "end":
			var e endEv
			if json.Unmarshal(line, &e) == nil {
				res.End = &e
			}
		}
	}
	err = cmd.Wait()
	res.WallS = time.Since(t0).Seconds()
	if ctx.Err() == context.DeadlineExceeded {
		res.TimedOut = true
	}
	if err != nil {
		if ee, ok := err.(*exec.ExitError); ok {
			res.ExitCode = ee.ExitCode()
		} else {
			res.ExitCode = -1
		}
	}
	res.Stderr += stderr.String()
	if race {
		res.RaceLog = readRaceLogs(raceLogPrefix)
	}
	return res
}

func batchArgs(bt Batch) []string {
	a := []string{"-batch", fmt.Sprint(bt.Seed), "-runs", fmt.Sprint(bt.Runs), "-tier", bt.Tier}
	if bt.NoCold {
		a = append(a, "-nocold")
	}
	if bt.ForceOp {
		a = append(a, "-forceop")
	}
	if bt.Tier == "thorough" {
		a = append(a, "-watchdog", "180")
	}
	if bt.Procs > 1 {
		a = append(a, "-procs", fmt.Sprint(bt.Procs))
	}
	return a
}

// aloneCheck switches oracle O8 on (check command) or off (selftest, minimiser); aloneNA is set once two
// history-free processes have been seen to disagree (O8 is then skipped for the rest of the check).
var aloneCheck, aloneNA bool

// runBatches executes all batches on a pool of worker processes.
func runBatches(b *Build, batches []Batch, workers int, perBatchTimeout time.Duration, stopOnViolation bool) []*BatchResult {
	results := make([]*BatchResult, len(batches))
	var mu sync.Mutex
	next := 0
	stop := false
	stuckSeen := 0
	var wg sync.WaitGroup
	for w := 0; w < workers; w++ {
		wg.Add(1)
		go func(w int) {
			defer wg.Done()
			for {
				mu.Lock()
				if next >= len(batches) || stop {
					mu.Unlock()
					return
				}
				i := next
				next++
				mu.Unlock()
				bt := batches[i]
				prefix := filepath.Join(b.Scratch, fmt.Sprintf("race-%d", bt.ID))
				r := runWorker(b, bt.Race, batchArgs(bt), prefix, perBatchTimeout)
				r.Batch = bt
				mu.Lock()
				na := aloneNA
				mu.Unlock()
				if aloneCheck && !na && r.ExitCode == 0 && r.Viol == nil && !r.TimedOut && bt.Runs > 1 && len(r.Done) == bt.Runs {
					// O8: the same run without the history of the batch
					k := bt.Runs - 1
					for j := range r.Done {
						if r.Done[j].Mode == "volume" && j > 0 {
							k = j // quantities: its distinct values are walked backwards in the twin process
						}
					}
					a := runWorker(b, bt.Race, append(batchArgs(bt), "-only", fmt.Sprint(k), "-backwards"), prefix+"-alone", perBatchTimeout)
					r.AloneChecked, r.AloneRun = true, k
					if a.ExitCode == 0 && len(a.Done) == 1 {
						r.AloneHash = a.Done[0].ResHash
					}
					r.RaceLog += a.RaceLog
					if r.AloneHash != "" && r.AloneHash != r.Done[k].ResHash {
						// a difference: is it history?  A second history-free process must agree with the first one;
						// if it does not, results vary from process to process for another reason and O8 does not apply
						// (three more of them, one of which starts its simulated clock on another day: process id, start
						// time, per-process random seeds all get their chance to show)
						for j, off := range []string{"93900", "0", "0"} {
							a2 := runWorker(b, bt.Race, append(batchArgs(bt), "-only", fmt.Sprint(k), "-backwards", "-clockoffset", off), fmt.Sprintf("%s-alone%d", prefix, j+2), perBatchTimeout)
							if a2.ExitCode == 0 && len(a2.Done) == 1 && a2.Done[0].ResHash != r.AloneHash {
								r.AloneNA = true
								mu.Lock()
								aloneNA = true
								mu.Unlock()
								break
							}
						}
					}
				}
				mu.Lock()
				results[i] = r
				if stopOnViolation && r.ExitCode == 5 && r.Viol == nil {
					// a stuck simulation: that batch is repeated operation-granular later; the others carry on as they
					// are until it has happened so often that it is clearly this tree's habit
					stuckSeen++
					if stuckSeen > 8 {
						stop = true
					}
				} else if stopOnViolation && (r.Viol != nil || r.ExitCode != 0) {
					stop = true
				}
				if stopOnViolation && r.AloneChecked && !r.AloneNA && r.AloneHash != "" && r.AloneRun < len(r.Done) && r.AloneHash != r.Done[r.AloneRun].ResHash {
					stop = true // O8 difference: reported after the batches in flight have finished
				}
				mu.Unlock()
			}
		}(w)
	}
	wg.Wait()
	return results
}
