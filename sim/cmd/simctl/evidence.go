package main

import (
	"encoding/json"
	"fmt"
	"os"
	"sort"
	"strings"
)

func jsonUnmarshal(b []byte, v interface{}) error { return json.Unmarshal(b, v) }

// Evidence aggregates what a check run actually covered.
type Evidence struct {
	tier         string
	seed         uint64
	build        *Build
	Runs         int
	PlainRuns    int
	RaceRuns     int
	ColdRuns     int
	Batches      int
	Steps        uint64
	SimS         float64
	AloneChecked int
	Switches     uint64
	Inflight     uint64
	Ops          int
	LibOps       int
	Skipped      int
	Errs         int
	Panics       int
	Faults       map[string]int
	sigs         map[string]bool
	allSigs      map[string]bool
	sites        map[int]bool
	pairs        map[int]bool
	numSites     int
	numLabels    int
	byStrat      map[string]int
	byGran       map[string]int
	byMode       map[string]int
	byTasks      map[int]int
	opCounts     map[string]map[string]int
	Divergent    int
	LoadRaces    int
	ProbeN       int
	probeEx      []Violation
	samples      []interface{}
	Violations   int
	wall         float64
	workerS      float64
	slowest      float64
	seedsUsed    []uint64
	sampleRefs   []sampleRef
	forcedOp     int
	canaryProcs  int
	canaryKeys   int
}

type sampleRef struct {
	batch Batch
	run   int
}

// expandSamples attaches the explicit programs to the first two samples (regenerated from the batch seed).
func (e *Evidence) expandSamples(b *Build) {
	for i, ref := range e.sampleRefs {
		if i >= 2 || i >= len(e.samples) {
			break
		}
		specs, err := genPrefix(b, ref.batch, ref.run)
		if err != nil || len(specs) != ref.run+1 {
			continue
		}
		if m, ok := e.samples[i].(map[string]interface{}); ok {
			m["case"] = describeSpec(specs[ref.run])
		}
	}
}

func newEvidence(tier string, seed uint64, b *Build) *Evidence {
	return &Evidence{tier: tier, seed: seed, build: b, Faults: map[string]int{}, sigs: map[string]bool{}, allSigs: map[string]bool{},
		sites: map[int]bool{}, pairs: map[int]bool{}, byStrat: map[string]int{}, byGran: map[string]int{}, byMode: map[string]int{}, byTasks: map[int]int{}, opCounts: map[string]map[string]int{}}
}

func (e *Evidence) addBatch(r *BatchResult) {
	e.Batches++
	if r.Batch.ForceOp {
		e.forcedOp++
	}
	e.workerS += r.WallS
	if r.WallS > e.slowest {
		e.slowest = r.WallS
	}
	if len(e.seedsUsed) < 6 {
		e.seedsUsed = append(e.seedsUsed, r.Batch.Seed)
	}
	for i := range r.Done {
		d := &r.Done[i]
		e.Runs++
		if r.Batch.Race {
			e.RaceRuns++
		} else {
			e.PlainRuns++
		}
		if d.Cold {
			e.ColdRuns++
		}
		e.Steps += d.Steps
		e.SimS += d.SimS
		e.Switches += d.Switches
		e.Inflight += d.Inflight
		e.Ops += d.Ops
		e.LibOps += d.LibOps
		e.Skipped += d.Skipped
		e.Errs += d.Errs
		e.Panics += d.Panics
		for k, v := range d.Faults {
			e.Faults[k] += v
		}
		e.allSigs[d.Sig] = true
		if d.Nontrivial {
			e.sigs[d.Sig] = true
		}
		e.byStrat[d.Strat]++
		e.byGran[d.Gran]++
		e.byMode[d.Mode]++
		e.byTasks[d.Tasks]++
		e.Divergent += d.Divergent
		e.ProbeN += len(d.Probes)
		if len(e.probeEx) < 3 {
			e.probeEx = append(e.probeEx, d.Probes...)
		}
		if len(e.samples) < 4 && d.Nontrivial && (len(e.samples) == 0 || d.Mode == "sfu") {
			e.sampleRefs = append(e.sampleRefs, sampleRef{r.Batch, d.Run})
			e.samples = append(e.samples, map[string]interface{}{
				"batch_seed": r.Batch.Seed, "run": d.Run, "run_seed": d.Seed, "build": map[bool]string{true: "race", false: "plain"}[r.Batch.Race],
				"cold": d.Cold, "mode": d.Mode, "tasks": d.Tasks, "operations": d.Ops, "library_operations": d.LibOps,
				"strategy": d.Strat, "granularity": d.Gran, "steps": d.Steps, "task_switches": d.Switches,
				"switches_inside_op_with_other_op_in_flight": d.Inflight, "shared_objects_and_messages": d.Shared,
				"faults_fired": d.Faults, "schedule_signature": d.Sig, "trace_hash": d.TraceHash, "result_hash": d.ResHash,
				"replay": fmt.Sprintf("worker -batch %d -runs %d (run index %d); explicit programs: add -gen -upto %d", r.Batch.Seed, r.Batch.Runs, d.Run, d.Run),
			})
		}
	}
	if r.End != nil {
		e.numSites = r.End.NumSites
		e.numLabels = r.End.NumLabel
		for _, s := range r.End.Sites {
			e.sites[s] = true
		}
		for _, p := range r.End.Pairs {
			e.pairs[p] = true
		}
		if len(r.End.Canary) > 0 {
			e.canaryProcs++
			e.canaryKeys = len(r.End.Canary)
		}
		for op, m := range r.End.OpCounts {
			if e.opCounts[op] == nil {
				e.opCounts[op] = map[string]int{}
			}
			for k, n := range m {
				e.opCounts[op][k] += n
			}
		}
	}
}

func (e *Evidence) finish(wall float64) { e.wall = wall }

// describeSpec writes a run specification out in readable form: the objects, every task's program and the
// scheduler configuration (an evidence sample must show what an explored case looks like).
func describeSpec(s *RunSpec) map[string]interface{} {
	kindOfSlot := map[int]string{}
	var objs []string
	for _, o := range s.Objects {
		k := "?"
		if o.List {
			k = "[]Packet"
		} else if o.Kind >= 0 && o.Kind < len(kindNames) {
			k = kindNames[o.Kind]
		}
		kindOfSlot[o.Slot] = k
		d := fmt.Sprintf("s%d = %s(seed %d)", o.Slot, k, o.Seed)
		if len(o.Tweaks) > 0 {
			d += fmt.Sprintf(" + %d single-leaf tweak(s)", len(o.Tweaks))
		}
		if o.Shared {
			d += " shared"
		}
		objs = append(objs, d)
	}
	var tasks []string
	for t, p := range s.Tasks {
		var sb strings.Builder
		fmt.Fprintf(&sb, "task %d:", t)
		for _, op := range p {
			name := "?"
			if int(op.K) < len(opNames) {
				name = opNames[op.K]
			}
			switch name {
			case "send":
				fmt.Fprintf(&sb, " send(s%d -> task %d #%d, delay %d);", op.A, op.Ch, op.Idx, op.N)
			case "recv":
				fmt.Fprintf(&sb, " s%d = recv(#%d);", op.B, op.Idx)
			case "mutate":
				if op.N == 1 {
					fmt.Fprintf(&sb, " tweak(s%d);", op.A)
				} else {
					fmt.Fprintf(&sb, " overwrite(s%d);", op.A)
				}
			case "corrupt":
				if op.N == 1 {
					fmt.Fprintf(&sb, " s%d = repad(s%d);", op.B, op.A)
				} else {
					fmt.Fprintf(&sb, " s%d = damage(s%d);", op.B, op.A)
				}
			case "Unit", "NackHelpers":
				fmt.Fprintf(&sb, " %s(%d);", name, op.N)
			default:
				arg := fmt.Sprintf("s%d", op.A)
				if k, ok := kindOfSlot[op.A]; ok {
					arg += ":" + k
				}
				if op.B >= 0 {
					fmt.Fprintf(&sb, " s%d = %s(%s);", op.B, name, arg)
				} else {
					fmt.Fprintf(&sb, " %s(%s);", name, arg)
				}
			}
		}
		tasks = append(tasks, sb.String())
	}
	strat := []string{"random", "pct", "rr", "global", "stall", "seq", "replay"}
	gran := []string{"stmt", "func", "op"}
	sched := fmt.Sprintf("strategy=%s granularity=%s p=1/%d q=%d first=task %d gc_rate=%d prng=%d", strat[s.Sched.Strat%len(strat)], gran[s.Sched.Gran%len(gran)], s.Sched.P, s.Sched.Q, s.Sched.First, s.Sched.GCRate, s.Sched.Seed)
	if s.Sched.ClockRate > 0 {
		sched += fmt.Sprintf(" clock=jumps forward every ~%d yields (1 ms .. 3 days)", s.Sched.ClockRate)
	}
	if s.Sched.StallHot {
		sched += fmt.Sprintf(" stall=in front of shared-state statements, up to %d times", s.Sched.StallMax)
	}
	return map[string]interface{}{"mode": s.Mode, "cold": s.Cold, "reference_pass_before": s.PreRef, "objects": objs, "programs": tasks, "scheduler": sched,
		"planned_transport_faults": s.Plan}
}

func (e *Evidence) write(path string) error {
	perHour := 0.0
	if e.wall > 0 {
		perHour = float64(e.Runs) / e.wall * 3600
	}
	var unhit []string
	if e.build != nil && e.build.Desc != nil {
		for _, s := range e.build.Desc.SiteTable {
			if !e.sites[s.ID] {
				unhit = append(unhit, fmt.Sprintf("%s:%d", s.File, s.Line))
			}
		}
	}
	sort.Strings(unhit)
	if len(unhit) > 200 {
		unhit = append(unhit[:200], fmt.Sprintf("… %d more", len(unhit)-200))
	}
	tasks := map[string]int{}
	for k, v := range e.byTasks {
		tasks[fmt.Sprint(k)] = v
	}
	samples := e.samples
	if len(samples) == 0 {
		samples = []interface{}{"no non-trivial run in this invocation"}
	}
	doc := map[string]interface{}{
		"property_id": "C18",
		"tier":        e.tier,
		"seed":        int64(e.seed & 0x7fffffffffffffff),
		"level":       "exploration",
		"wall_s":      e.wall,
		"violations":  e.Violations,
		"coverage": map[string]interface{}{
			"evaluations":         e.Runs,
			"distinct_nontrivial": len(e.sigs),
			"rule": "one evaluation = one simulated run (2-8 caller tasks executing seeded straight-line programs of rtcp operations over the real, " +
				"source-instrumented package under a seeded scheduler; every result checked by oracles O1-O6 and O9, every typed decode also made into a used receiver; O7 and O8 compare worker processes). A run is non-trivial iff at least one task switch " +
				"happened at a yield point inside an rtcp operation while the task switched to was itself parked inside an rtcp operation AND at least one object " +
				"(packet or buffer) was reachable by more than one task. Distinct = distinct schedule signature (FNV hash of all programs, object seeds and the " +
				"recorded switch list). Measured by the workers per run; the coordinator counts set cardinality.",
			"samples":                            samples,
			"distinct_schedule_signatures_all":   len(e.allSigs),
			"runs_plain_build":                   e.PlainRuns,
			"runs_race_build":                    e.RaceRuns,
			"cold_runs":                          e.ColdRuns,
			"worker_batches":                     e.Batches,
			"runs_per_hour":                      perHour,
			"verif_seed":                         fmt.Sprint(e.seed),
			"first_batch_seeds":                  e.seedsUsed,
			"logical_steps":                      e.Steps,
			"task_switches":                      e.Switches,
			"switches_inside_op_other_in_flight": e.Inflight,
			"operations":                         e.Ops,
			"library_operations":                 e.LibOps,
			"operations_skipped_not_applicable":  e.Skipped,
			"error_results":                      e.Errs,
			"panic_results":                      e.Panics,
			"faults_fired":                       e.Faults,
			"yield_sites_generated":              e.numSites,
			"yield_sites_reached":                len(e.sites),
			"yield_sites_not_reached":            unhit,
			"inflight_op_pairs_reached":          len(e.pairs),
			"inflight_op_pair_space":             e.numLabels * e.numLabels,
			"executed_operations_by_kind":        e.opCounts,
			"batches_repeated_operation_granular_after_stuck_simulation": e.forcedOp,
			"canary_processes_compared":                                  e.canaryProcs,
			"canary_digests_per_process":                                 e.canaryKeys,
			"runs_by_strategy":                                           e.byStrat,
			"runs_by_granularity":                                        e.byGran,
			"runs_by_mode":                                               e.byMode,
			"runs_by_task_count":                                         tasks,
			"ops_with_divergent_site_trace":                              e.Divergent,
			"race_reports_confined_to_load_ops":                          e.LoadRaces,
			"probe_mismatches_load_ops":                                  e.ProbeN,
			"probe_examples":                                             e.probeEx,
			"simulated_time":                                             e.simulatedTime(),
			"components_real":                                            []string{"every non-test source file of github.com/pion/rtcp from the working tree (yield call inserted before each statement)", "Go runtime", "fmt/reflect/encoding/binary", "Go race detector (race build)"},
			"components_stub":                                            []string{"seeded scheduler (token hand-off invisible to the race detector)", "transport and mailboxes (drop/duplicate/delay/reorder/corrupt)", "caller roles: producers, receivers, consumers, private-history tasks"},
			"components_absent":                                          []string{"clock/timers (a simulated clock exists for trees that read one)", "disk", "sockets (the library has none)"},
			"channel_operations_made_cooperative":                        e.build.Desc.ChanCoop,
			"go_version":                                                 e.build.GoVer,
			"build_s":                                                    e.build.BuildS,
			"op_only_scheduling":                                         e.build.Desc.OpOnly,
			"blocking_sync_in_tree":                                      e.build.Desc.BlockingSync,
			"non_sentinel_package_vars":                                  e.build.Desc.PkgVars,
			"runs_repeated_alone_in_a_fresh_process_O8":                  e.AloneChecked,
			"instrumentation_fallback":                                   e.build.FallbackNote,
			"calibration_hot_kinds_and_units_hex":                        e.build.Hot,
			"worker_cpu_s":                                               e.workerS,
			"slowest_batch_s":                                            e.slowest,
		},
		"assumptions": []string{
			"sampling, not enumeration: a clean batch is evidence, not proof",
			"the sequential reference is the code under test run in isolation on history-free twins; a change that breaks results identically everywhere is not a C18 violation",
			"standard-library internals are not instrumented with yields; fmt's printer pool and reflect's caches create real happens-before edges between tasks that format (mitigated by String-free and cold symmetric runs)",
			"yields are statement-granular",
		},
	}
	return writeJSON(path, doc)
}

// showCmd prints a replay file in readable form.
func showCmd(path string) int {
	data, err := os.ReadFile(path)
	if err != nil {
		fmt.Fprintln(os.Stderr, err)
		return 2
	}
	var rf ReplayFile
	if err := json.Unmarshal(data, &rf); err != nil {
		fmt.Fprintln(os.Stderr, "replay file:", err)
		return 2
	}
	fmt.Printf("property %s  VERIF_SEED %d  build %s  reproducible %v  minimised %v  runs %d\n", rf.Property, rf.VerifSeed, rf.Build, rf.Reproducible, rf.Minimised, len(rf.Runs))
	if rf.Note != "" {
		fmt.Println("note:", rf.Note)
	}
	for i, s := range rf.Runs {
		d := describeSpec(s)
		fmt.Printf("--- run %d (seed %d, mode %v, cold %v)\n", i, s.Seed, d["mode"], d["cold"])
		for _, o := range d["objects"].([]string) {
			fmt.Println("   ", o)
		}
		for _, p := range d["programs"].([]string) {
			fmt.Println("   ", p)
		}
		fmt.Println("    scheduler:", d["scheduler"])
		for _, sw := range s.Sched.Replay {
			kind := "preempt"
			if sw.Forced {
				kind = "blocked/finished"
			}
			fmt.Printf("      switch: task %d at entry %d, yield %d -> task %d (%s)\n", sw.T, sw.Op, sw.At, sw.To, kind)
		}
	}
	for _, v := range rf.Violation {
		fmt.Printf("violation %s [%s] %s/%s world=%s task=%d entry=%d\n  expected: %s\n  actual:   %s\n  %s\n", v.Oracle, v.Clause, v.Op, v.Kind, v.World, v.Task, v.OpIdx, v.Expected, v.Actual, v.Detail)
	}
	if rf.RaceReport != "" {
		fmt.Println(rf.RaceReport)
	}
	return 0
}

// simulatedTime describes the simulated time covered (trees that read the clock) or says why there is none.
func (e *Evidence) simulatedTime() string {
	if e.build == nil || e.build.Desc == nil || e.build.Desc.ClockReads == 0 {
		return "n/a (no clock, timer or deadline exists in the system under test; progress is counted in logical steps)"
	}
	return fmt.Sprintf("%.0f simulated seconds over all runs (%d clock expressions of the tree read the simulated clock: a microsecond per yield plus seeded forward jumps of 1 ms .. 3 days; timers left on the real clock: %v)",
		e.SimS, e.build.Desc.ClockReads, e.build.Desc.Timers)
}
