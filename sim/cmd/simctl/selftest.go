package main

import (
	"bytes"
	"fmt"
	"os"
	"os/exec"
	"path/filepath"
	"sort"
	"strings"
	"sync"
	"time"
)

// selftest proves determinism: every batch seed is executed in its own process
// under {plain, race} x GOMAXPROCS {1, 4, 16} x 2 repetitions, and the complete
// event log (trace hash of every (task, site) step and switch, result hash of
// every operation, schedule signature) must be identical across all twelve - except that a volume run, which
// makes fewer calls in the race build, is compared within its build flavour (six executions) only.
func selftest(repo string, seeds int) int {
	logf := func(f string, a ...interface{}) { fmt.Fprintf(os.Stderr, "[selftest] "+f+"\n", a...) }
	b, err := buildAll(repo, true)
	defer b.Cleanup()
	if err != nil {
		logf("BUILD FAILED: %v", err)
		return 2
	}
	type job struct {
		seed  uint64
		race  bool
		procs string
		rep   int
	}
	var jobs []job
	m := &splitmix{s: verifSeed() ^ 0x5e1f}
	for i := 0; i < seeds; i++ {
		s := m.u64()
		for _, race := range []bool{false, true} {
			for _, p := range []string{"1", "4", "16"} {
				for rep := 0; rep < 2; rep++ {
					jobs = append(jobs, job{s, race, p, rep})
				}
			}
		}
	}
	logs := make([]string, len(jobs))   // complete event summary of each execution
	common := make([]string, len(jobs)) // the same without volume runs
	var mu sync.Mutex
	next := 0
	var wg sync.WaitGroup
	for w := 0; w < 8; w++ {
		wg.Add(1)
		go func() {
			defer wg.Done()
			for {
				mu.Lock()
				if next >= len(jobs) {
					mu.Unlock()
					return
				}
				i := next
				next++
				mu.Unlock()
				j := jobs[i]
				r := runWorkerWith(b, j.race, []string{"-batch", fmt.Sprint(j.seed), "-runs", "12", "-tier", "quick"},
					filepath.Join(b.Scratch, fmt.Sprintf("st-race-%d", i)), 5*time.Minute, j.procs)
				var sb, sc strings.Builder
				fmt.Fprintf(&sb, "exit=%d viol=%v\n", r.ExitCode, r.Viol != nil)
				fmt.Fprintf(&sc, "exit=%d viol=%v\n", r.ExitCode, r.Viol != nil)
				for _, d := range r.Done {
					line := fmt.Sprintf("%d %d %s %s %s %d %d %d\n", d.Run, d.Seed, d.Sig, d.TraceHash, d.ResHash, d.Steps, d.Switches, d.Inflight)
					sb.WriteString(line)
					if d.Mode != "volume" {
						// a volume run makes fewer calls in the race build (on purpose: quantities are the plain build's
						// business): its trace is compared within one build flavour only
						sc.WriteString(line)
					}
				}
				logs[i] = sb.String()
				common[i] = sc.String()
			}
		}()
	}
	wg.Wait()
	bad := 0
	bySeed := map[uint64][]int{}
	for i, j := range jobs {
		bySeed[j.seed] = append(bySeed[j.seed], i)
	}
	var seedsList []uint64
	for s := range bySeed {
		seedsList = append(seedsList, s)
	}
	sort.Slice(seedsList, func(a, c int) bool { return seedsList[a] < seedsList[c] })
	for _, s := range seedsList {
		idx := bySeed[s]
		firstOf := map[bool]int{}
		for _, i := range idx {
			if _, ok := firstOf[jobs[i].race]; !ok {
				firstOf[jobs[i].race] = i
			}
		}
		for _, i := range idx[1:] {
			ref := firstOf[jobs[i].race]
			if common[i] != common[idx[0]] || logs[i] != logs[ref] {
				bad++
				j := jobs[i]
				logf("DIVERGENCE seed=%d race=%v GOMAXPROCS=%s rep=%d\n--- reference\n%s--- got\n%s", s, j.race, j.procs, j.rep, logs[ref], logs[i])
				break
			}
		}
		if !strings.HasPrefix(logs[idx[0]], "exit=0 viol=false") {
			bad++
			logf("seed %d did not run cleanly: %s", s, strings.SplitN(logs[idx[0]], "\n", 2)[0])
		}
	}
	fmt.Printf("selftest: %d seeds x 12 executions (plain/race x GOMAXPROCS 1/4/16 x 2), %d divergent\n", len(seedsList), bad)
	if bad > 0 {
		return 1
	}
	return 0
}

// mutantsCmd runs the sensitivity suite: every *.diff under dir is applied to a
// scratch copy of the repository (never to the repository itself) and the C18
// check is run against the copy.  Files named neg-*.diff are negative controls
// and must stay silent; all others must be reported.
func mutantsCmd(repo, dir, only, tier string, withTests bool) int {
	root := verifRoot()
	if dir == "" {
		dir = filepath.Join(root, "mutants")
	}
	if abs, err := filepath.Abs(dir); err == nil {
		dir = abs
	}
	diffs, _ := filepath.Glob(filepath.Join(dir, "*.diff"))
	nested, _ := filepath.Glob(filepath.Join(dir, "*", "patch.diff")) // seeded/<id>/patch.diff
	diffs = append(diffs, nested...)
	sort.Strings(diffs)
	self, _ := os.Executable()
	failures := 0
	type row struct{ name, expect, got, note string }
	var rows []row
	for _, d := range diffs {
		name := strings.TrimSuffix(filepath.Base(d), ".diff")
		if filepath.Base(d) == "patch.diff" {
			name = filepath.Base(filepath.Dir(d))
		}
		if only != "" && !strings.Contains(name, only) {
			continue
		}
		neg := strings.HasPrefix(name, "neg-")
		if neg && os.Getenv("VERIF_SKIP_NEG") != "" {
			continue // (a regression of the breaking changes only: each negative control costs a full quick check)
		}
		scratch, err := os.MkdirTemp(scratchBase(), "rtcp-mut-")
		if err != nil {
			fmt.Fprintln(os.Stderr, err)
			return 2
		}
		cp := exec.Command("sh", "-c", fmt.Sprintf("cd %q && tar --exclude=.git -cf - . | tar -xf - -C %q", repo, scratch))
		if out, err := cp.CombinedOutput(); err != nil {
			fmt.Fprintf(os.Stderr, "copy: %v %s\n", err, out)
			os.RemoveAll(scratch)
			return 2
		}
		ap := exec.Command("patch", "-p1", "-s", "-i", d)
		ap.Dir = scratch
		if out, err := ap.CombinedOutput(); err != nil {
			rows = append(rows, row{name, "", "PATCH-FAILED", strings.TrimSpace(string(out))})
			fmt.Printf("%-44s PATCH-FAILED %s\n", name, strings.TrimSpace(string(out)))
			failures++
			os.RemoveAll(scratch)
			continue
		}
		note := ""
		if withTests {
			t := exec.Command("go", "test", "-count=1", "-vet=off", "./...")
			t.Dir = scratch
			t.Env = goEnv()
			if out, err := t.CombinedOutput(); err != nil {
				note = "REPO TESTS FAIL: " + tail(strings.TrimSpace(string(out)), 300)
			} else {
				note = "repo tests pass"
			}
		}
		evOut := filepath.Join(scratch, "evidence.json")
		repDir := filepath.Join(root, "mutants", "replays-"+name)
		os.RemoveAll(repDir)
		c := exec.Command(self, "check", "--property", "C18", "--tier", tier, "--repo", scratch, "--evidence-out", evOut, "--replays-dir", repDir)
		c.Env = append(os.Environ(), "VERIF_ROOT="+root)
		var so, se bytes.Buffer
		c.Stdout, c.Stderr = &so, &se
		t0 := time.Now()
		err = c.Run()
		code := 0
		if ee, ok := err.(*exec.ExitError); ok {
			code = ee.ExitCode()
		} else if err != nil {
			code = -1
		}
		got := map[int]string{0: "clean", 1: "VIOLATION", 2: "INFRA"}[code]
		if got == "" {
			got = fmt.Sprintf("exit %d", code)
		}
		expect := "VIOLATION"
		if neg {
			expect = "clean"
		}
		if strings.HasPrefix(name, "weak-") {
			// a breaking change this tier is known to find only some of the time (recorded in its meta.json):
			// either outcome is accepted here, a false INFRA is not
			expect = "VIOLATION-or-clean"
			if got == "clean" || got == "VIOLATION" {
				expect = got
			}
		}
		if got != expect {
			failures++
			note += " | stderr: " + tail(se.String(), 600)
		}
		if code == 1 {
			// summarise which oracle fired
			for _, ln := range strings.Split(se.String(), "\n") {
				if strings.Contains(ln, "replay file:") || strings.Contains(ln, "minimise:") {
					note += " | " + strings.TrimPrefix(ln, "[simctl] ")
				}
			}
			reps, _ := filepath.Glob(filepath.Join(repDir, "*.json"))
			for _, rp := range reps {
				if data, err := os.ReadFile(rp); err == nil {
					var rf ReplayFile
					if jsonUnmarshal(data, &rf) == nil {
						o := "O1(race)"
						if len(rf.Violation) > 0 {
							o = rf.Violation[0].Oracle + ":" + rf.Violation[0].Op + "/" + rf.Violation[0].Kind
						}
						note += fmt.Sprintf(" | %s build=%s", o, rf.Build)
					}
				}
			}
		}
		if os.Getenv("SIM_KEEP_REPLAYS") == "" {
			os.RemoveAll(repDir)
		}
		rows = append(rows, row{name, expect, got, fmt.Sprintf("%.0fs %s", time.Since(t0).Seconds(), note)})
		os.RemoveAll(scratch)
		fmt.Printf("%-44s expect=%-9s got=%-9s %s\n", name, expect, got, rows[len(rows)-1].note)
	}
	fmt.Printf("mutants: %d checked, %d unexpected outcomes\n", len(rows), failures)
	if failures > 0 {
		return 1
	}
	return 0
}
