package main

import (
	"bytes"
	"context"
	"fmt"
	"os"
	"os/exec"
	"path/filepath"
	"strings"
	"sync"
	"time"

	"rtcpverif/sim/instrument"
)

// verifRoot returns the /verif directory (parent of bin/).
func verifRoot() string {
	if v := os.Getenv("VERIF_ROOT"); v != "" {
		return v
	}
	exe, err := os.Executable()
	if err == nil {
		if r, err := filepath.EvalSymlinks(exe); err == nil {
			exe = r
		}
		root := filepath.Dir(filepath.Dir(exe))
		if _, err := os.Stat(filepath.Join(root, "harness", "sched.go")); err == nil {
			return root
		}
	}
	return "/verif"
}

func goEnv(extra ...string) []string {
	env := os.Environ()
	env = append(env, "GOFLAGS=-mod=mod", "GOPROXY=off", "GOSUMDB=off", "GOTOOLCHAIN=local", "CGO_ENABLED=1")
	return append(env, extra...)
}

// Build is an instrumented copy of the repository plus the two worker binaries.
type Build struct {
	Scratch string
	Plain   string
	Race    string
	Desc    *instrument.Descriptor
	GoVer   string
	BuildS  float64
	// Hot is the result of the calibration pass ("kinds:units", two hexadecimal masks): which packet kinds and unit
	// operations reach statements that touch shared state.  Workers bias their workloads towards those.
	Hot string
	// FallbackNote is set when the build with rewrites failed and the tree was built again without them.
	FallbackNote string
}

// withHot appends the calibration result to a worker's arguments.
func (b *Build) withHot(args []string) []string {
	if b.Hot == "" {
		return args
	}
	return append(append([]string{}, args...), "-hot", b.Hot)
}

// calibrate runs the plain worker once in calibration mode.
func (b *Build) calibrate() {
	ctx, cancel := context.WithTimeout(context.Background(), 2*time.Minute)
	defer cancel()
	cmd := exec.CommandContext(ctx, b.Plain, "-calibrate")
	cmd.Env = append(os.Environ(), "GOMAXPROCS=1")
	out, err := cmd.Output()
	if err != nil {
		fmt.Fprintf(os.Stderr, "[simctl] calibration pass failed (%v): workloads stay unbiased\n", err)
		return
	}
	h := strings.TrimSpace(string(out))
	if h != "" && h != "0:0" {
		b.Hot = h
	}
}

func (b *Build) Cleanup() {
	if b != nil && b.Scratch != "" && os.Getenv("SIM_KEEP") == "" {
		os.RemoveAll(b.Scratch)
	}
}

func scratchBase() string {
	if v := os.Getenv("TMPDIR"); v != "" {
		return v
	}
	return "/var/tmp"
}

// buildAll instruments repo into a scratch directory and builds the harness twice.
func buildAll(repo string, wantRace bool) (*Build, error) {
	b, err := buildWith(repo, wantRace, true)
	rewrites := func(d *instrument.Descriptor) bool {
		return d != nil && (d.LockRewrites > 0 || d.OnceWraps > 0 || d.WaitHints > 0 || d.PoolSites > 0 || d.ClockReads > 0)
	}
	if err == nil && b.Desc.GoStmts > 0 && rewrites(b.Desc) {
		// the tree starts goroutines of its own: they would reach the rewritten Lock loops, which only the
		// simulated tasks may execute.  Use real locks instead (such a tree is op_only: operation-granular).
		b.Cleanup()
		return buildWith(repo, wantRace, false)
	}
	if err != nil && b != nil && rewrites(b.Desc) {
		// the Lock/Do/Gosched rewrite did not compile (e.g. not a sync mutex): build again without the rewrite.
		// Statement-granular scheduling stays on; a task that blocks in a real lock held by a descheduled
		// task is caught by the per-run watchdog (exit 5) and that batch is repeated operation-granular.
		note := fmt.Sprintf("the scratch copy with rewritten Lock / Do / Gosched / pool / clock expressions did not compile (%s): built again without any of these rewrites - real locks (a stuck simulation is repeated operation-granular), no pool-miss fault, real clock", firstLine(err.Error()))
		fmt.Fprintf(os.Stderr, "[simctl] %s\n", note)
		b.Cleanup()
		b2, err2 := buildWith(repo, wantRace, false)
		if b2 != nil {
			b2.FallbackNote = note
		}
		return b2, err2
	}
	return b, err
}

// harnessModule is the module path the harness sources import.
const harnessModule = "github.com/pion/rtcp"

// pseudoVersion returns a version the go command accepts for a replaced module: vN.0.0 for a path ending in /vN.
func pseudoVersion(mod string) string {
	if i := strings.LastIndex(mod, "/v"); i >= 0 {
		n := mod[i+2:]
		ok := n != "" && n != "0" && n != "1"
		for _, c := range n {
			if c < '0' || c > '9' {
				ok = false
			}
		}
		if ok {
			return "v" + n + ".0.0"
		}
	}
	return "v0.0.0"
}

func firstLine(s string) string {
	if i := strings.Index(s, "\n"); i >= 0 {
		j := strings.Index(s[i+1:], "\n")
		if j >= 0 {
			return s[:i+1+j]
		}
	}
	return s
}

func buildWith(repo string, wantRace bool, rewrite bool) (*Build, error) {
	scratch, err := os.MkdirTemp(scratchBase(), "rtcp-sim-")
	if err != nil {
		return nil, err
	}
	b := &Build{Scratch: scratch}
	desc, err := instrument.RunOpts(repo, filepath.Join(scratch, "rtcp"), rewrite)
	if err != nil {
		return b, fmt.Errorf("instrument: %w", err)
	}
	b.Desc = desc
	hdir := filepath.Join(scratch, "harness")
	if err := os.MkdirAll(hdir, 0o755); err != nil {
		return b, err
	}
	src := filepath.Join(verifRoot(), "harness")
	ents, err := os.ReadDir(src)
	if err != nil {
		return b, err
	}
	for _, e := range ents {
		if strings.HasSuffix(e.Name(), ".go") || strings.HasSuffix(e.Name(), ".s") {
			data, err := os.ReadFile(filepath.Join(src, e.Name()))
			if err != nil {
				return b, err
			}
			if strings.HasSuffix(e.Name(), ".go") && desc.Module != harnessModule {
				// the harness is written against the pinned module path; follow a renamed module (…/v2)
				data = bytes.ReplaceAll(data, []byte(`hook "`+harnessModule+`/zz_simhook"`), []byte(`hook "`+desc.Module+`/zz_simhook"`))
				data = bytes.ReplaceAll(data, []byte("\t\""+harnessModule+"\"\n"), []byte("\trtcp \""+desc.Module+"\"\n"))
			}
			if err := os.WriteFile(filepath.Join(hdir, e.Name()), data, 0o644); err != nil {
				return b, err
			}
		}
	}
	gomod := fmt.Sprintf("module rtcpsim/harness\n\ngo 1.20\n\nrequire %s %s\n\nreplace %s => ../rtcp\n", desc.Module, pseudoVersion(desc.Module), desc.Module)
	if err := os.WriteFile(filepath.Join(hdir, "go.mod"), []byte(gomod), 0o644); err != nil {
		return b, err
	}
	if sum, err := os.ReadFile(filepath.Join(repo, "go.sum")); err == nil {
		_ = os.WriteFile(filepath.Join(hdir, "go.sum"), sum, 0o644)
	}
	if out, err := exec.Command("go", "version").Output(); err == nil {
		b.GoVer = strings.TrimSpace(string(out))
	}
	b.Plain = filepath.Join(scratch, "h_plain")
	b.Race = filepath.Join(scratch, "h_race")
	var wg sync.WaitGroup
	var errPlain, errRace error
	var outPlain, outRace bytes.Buffer
	wg.Add(1)
	go func() {
		defer wg.Done()
		c := exec.Command("go", "build", "-o", b.Plain, ".")
		c.Dir = hdir
		c.Env = goEnv()
		c.Stdout, c.Stderr = &outPlain, &outPlain
		errPlain = c.Run()
	}()
	if wantRace {
		wg.Add(1)
		go func() {
			defer wg.Done()
			c := exec.Command("go", "build", "-race", "-o", b.Race, ".")
			c.Dir = hdir
			c.Env = goEnv()
			c.Stdout, c.Stderr = &outRace, &outRace
			errRace = c.Run()
		}()
	}
	wg.Wait()
	if errPlain != nil {
		return b, fmt.Errorf("plain build failed: %v\n%s", errPlain, outPlain.String())
	}
	if errRace != nil {
		return b, fmt.Errorf("race build failed: %v\n%s", errRace, outRace.String())
	}
	b.calibrate()
	return b, nil
}
