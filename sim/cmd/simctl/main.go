package main

import (
	"fmt"
	"os"

	"rtcpverif/sim/instrument"
)

func main() {
	if len(os.Args) >= 4 && os.Args[1] == "instrument" {
		d, err := instrument.Run(os.Args[2], os.Args[3])
		if err != nil {
			fmt.Fprintln(os.Stderr, err)
			os.Exit(2)
		}
		fmt.Printf("files=%d sites=%d op_only=%v pkgvars=%v blocking=%v\n", d.Files, d.Sites, d.OpOnly, d.PkgVars, d.BlockingSync)
		return
	}
	os.Exit(2)
}
