// simctl is the coordinator of the C18 deterministic simulation: it
// instruments the working tree of the repository into a scratch copy, builds
// the worker twice (plain and -race), fans seeded batches out to worker
// processes, confirms / minimises / records violations, and writes evidence.
package main

import (
	"flag"
	"fmt"
	"os"
	"strconv"

	"rtcpverif/sim/instrument"
)

func verifSeed() uint64 {
	if v := os.Getenv("VERIF_SEED"); v != "" {
		if n, err := strconv.ParseUint(v, 10, 64); err == nil {
			return n
		}
		if n, err := strconv.ParseInt(v, 10, 64); err == nil {
			return uint64(n)
		}
	}
	return 20261004
}

var (
	evidenceOut = ""
	replaysDir  = ""
)

func main() {
	if len(os.Args) < 2 {
		fmt.Fprintln(os.Stderr, "usage: simctl check|replay|show|selftest|mutants|instrument ...")
		os.Exit(2)
	}
	switch os.Args[1] {
	case "instrument":
		if len(os.Args) < 4 {
			os.Exit(2)
		}
		d, err := instrument.Run(os.Args[2], os.Args[3])
		if err != nil {
			fmt.Fprintln(os.Stderr, err)
			os.Exit(2)
		}
		fmt.Printf("files=%d sites=%d op_only=%v pkgvars=%v blocking=%v\n", d.Files, d.Sites, d.OpOnly, d.PkgVars, d.BlockingSync)
	case "check":
		fs := flag.NewFlagSet("check", flag.ExitOnError)
		prop := fs.String("property", "C18", "property id")
		tier := fs.String("tier", "", "quick|thorough (default: $VERIF_TIER or quick)")
		repo := fs.String("repo", "/repo", "repository working tree")
		fs.StringVar(&evidenceOut, "evidence-out", "", "write evidence here instead of /verif/evidence/C18.json")
		fs.StringVar(&replaysDir, "replays-dir", "", "write replay files here instead of /verif/replays")
		_ = fs.Parse(os.Args[2:])
		if *prop != "C18" {
			fmt.Fprintf(os.Stderr, "property %s is not decided by this machinery (see MANIFEST not_applicable)\n", *prop)
			os.Exit(2)
		}
		t := *tier
		if t == "" {
			t = os.Getenv("VERIF_TIER")
		}
		if t != "thorough" {
			t = "quick"
		}
		os.Exit(checkC18(*repo, t, verifSeed()))
	case "replay":
		fs := flag.NewFlagSet("replay", flag.ExitOnError)
		repo := fs.String("repo", "/repo", "repository working tree")
		_ = fs.Parse(os.Args[2:])
		if fs.NArg() < 1 {
			fmt.Fprintln(os.Stderr, "usage: simctl replay [--repo dir] <file>")
			os.Exit(2)
		}
		os.Exit(replayCmd(*repo, fs.Arg(0)))
	case "show":
		if len(os.Args) < 3 {
			fmt.Fprintln(os.Stderr, "usage: simctl show <replay file>")
			os.Exit(2)
		}
		os.Exit(showCmd(os.Args[2]))
	case "selftest":
		fs := flag.NewFlagSet("selftest", flag.ExitOnError)
		repo := fs.String("repo", "/repo", "repository working tree")
		seeds := fs.Int("seeds", 40, "number of batch seeds")
		_ = fs.Parse(os.Args[2:])
		os.Exit(selftest(*repo, *seeds))
	case "mutants":
		fs := flag.NewFlagSet("mutants", flag.ExitOnError)
		repo := fs.String("repo", "/repo", "repository working tree")
		dir := fs.String("dir", "", "directory with *.diff files (default /verif/mutants)")
		only := fs.String("only", "", "substring filter on mutant names")
		tier := fs.String("tier", "quick", "tier to run against each mutant")
		tests := fs.Bool("tests", true, "also run the repository's own tests on each mutant")
		_ = fs.Parse(os.Args[2:])
		os.Exit(mutantsCmd(*repo, *dir, *only, *tier, *tests))
	default:
		fmt.Fprintln(os.Stderr, "unknown command", os.Args[1])
		os.Exit(2)
	}
}
