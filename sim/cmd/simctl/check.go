package main

import (
	"bytes"
	"context"
	"fmt"
	"os"
	"os/exec"
	"path/filepath"
	"runtime"
	"sort"
	"strconv"
	"strings"
	"time"
)

type rawResult struct {
	stdout, stderr string
	err            error
}

func runWorkerRaw(b *Build, args []string, timeout time.Duration) rawResult {
	ctx, cancel := context.WithTimeout(context.Background(), timeout)
	defer cancel()
	cmd := exec.CommandContext(ctx, b.Plain, b.withHot(args)...)
	cmd.Env = append(os.Environ(), "GOMAXPROCS=1")
	var so, se bytes.Buffer
	cmd.Stdout, cmd.Stderr = &so, &se
	err := cmd.Run()
	return rawResult{so.String(), se.String(), err}
}

type tierPlan struct {
	plainBatches, plainRuns int
	raceBatches, raceRuns   int
	minimiseBudget          time.Duration
	batchTimeout            time.Duration
}

// procsFor: every fourth worker batch runs with GOMAXPROCS=2 (the tree may look at runtime.GOMAXPROCS or
// runtime.NumCPU; the simulated schedule is the same either way, `simctl selftest` checks that).
func procsFor(id int) int {
	if id%4 == 3 {
		return 2
	}
	return 1
}

func planFor(tier string) tierPlan {
	p := tierPlan{plainBatches: 192, plainRuns: 20, raceBatches: 192, raceRuns: 12, minimiseBudget: 90 * time.Second, batchTimeout: 20 * time.Minute}
	if tier == "thorough" {
		// (sized for about an hour on 16 idle cores: 88 800 runs plus one O8 twin per batch)
		p = tierPlan{plainBatches: 3600, plainRuns: 20, raceBatches: 1400, raceRuns: 12, minimiseBudget: 5 * time.Minute, batchTimeout: 45 * time.Minute}
	}
	if v := os.Getenv("VERIF_BUDGET_RUNS"); v != "" {
		if n, err := strconv.Atoi(v); err == nil && n > 0 {
			// total runs, split 60/40 between plain and race builds
			p.plainBatches = (n*6/10)/p.plainRuns + 1
			p.raceBatches = (n*4/10)/p.raceRuns + 1
		}
	}
	return p
}

type foundViolation struct {
	batch  *BatchResult
	keys   map[string]bool
	known  []*KnownFinding
	races  []RaceClass
	probes bool
}

// checkC18 is the quick/thorough check.  Exit codes: 0 held, 1 violation, 2 infrastructure trouble.
func checkC18(repo, tier string, verifSeed uint64) int {
	t0 := time.Now()
	root := verifRoot()
	logf := func(f string, a ...interface{}) { fmt.Fprintf(os.Stderr, "[simctl] "+f+"\n", a...) }
	logf("VERIF_SEED=%d tier=%s repo=%s", verifSeed, tier, repo)
	b, err := buildAll(repo, true)
	defer b.Cleanup()
	if err != nil {
		logf("BUILD FAILED: %v", err)
		return 2
	}
	b.BuildS = time.Since(t0).Seconds()
	if b.Hot != "" {
		logf("calibration: packet kinds / unit operations that reach statements touching shared state (hex masks) = %s; workloads are biased towards them", b.Hot)
	}
	logf("built in %.1fs: %d files, %d yield sites, op_only=%v (%s), %d lock rewrites, %d once wraps", b.BuildS, b.Desc.Files, b.Desc.Sites, b.Desc.OpOnly, strings.Join(b.Desc.BlockingSync, "; "), b.Desc.LockRewrites, b.Desc.OnceWraps)
	if len(b.Desc.PkgVars) > 0 {
		logf("note: package-level variables that are not error sentinels: %v", b.Desc.PkgVars)
	}

	plan := planFor(tier)
	master := &splitmix{s: verifSeed}
	var batches []Batch
	id := 0
	// interleave race and plain batches so that an early stop has seen both
	for i := 0; i < plan.plainBatches || i < plan.raceBatches; i++ {
		if i < plan.raceBatches {
			batches = append(batches, Batch{ID: id, Seed: master.u64(), Runs: plan.raceRuns, Race: true, Tier: tier, Procs: procsFor(id)})
			id++
		}
		if i < plan.plainBatches {
			batches = append(batches, Batch{ID: id, Seed: master.u64(), Runs: plan.plainRuns, Race: false, Tier: tier, Procs: procsFor(id)})
			id++
		}
	}
	workers := runtime.NumCPU()
	if workers > 16 {
		workers = 16
	}
	aloneCheck = true
	results := runBatches(b, batches, workers, plan.batchTimeout, true)
	// A worker that exits 5 found its simulation stuck: some task was descheduled inside code that another task
	// then blocked on for real (blocking inside an uninstrumented dependency, a wait the instrumenter does not
	// recognise).  That is the simulator's doing, not the tree's: repeat those batches, and every batch not yet
	// run, with operation-granular scheduling, under which no task is ever descheduled inside an operation.
	stuck := 0
	for _, r := range results {
		if r != nil && r.ExitCode == 5 && r.Viol == nil {
			stuck++
		}
	}
	if stuck > 0 {
		var again []Batch
		var idx []int
		for i, r := range results {
			if r == nil || (r.ExitCode == 5 && r.Viol == nil) {
				bt := batches[i]
				bt.ForceOp = true
				again = append(again, bt)
				idx = append(idx, i)
			}
		}
		logf("simulation stuck in %d worker batch(es) under statement-granular scheduling (first: %s); repeating %d batch(es) operation-granular",
			stuck, firstStuck(results), len(again))
		res2 := runBatches(b, again, workers, plan.batchTimeout, true)
		for k, i := range idx {
			results[i] = res2[k]
		}
	}

	known := loadKnown()
	ev := newEvidence(tier, verifSeed, b)
	var infra []string
	var found []*foundViolation
	for _, r := range results {
		if r == nil {
			continue // not started (early stop)
		}
		ev.addBatch(r)
		if r.TimedOut {
			infra = append(infra, fmt.Sprintf("batch %d (seed %d) timed out after %.0fs at run %d seed %d", r.Batch.ID, r.Batch.Seed, r.WallS, r.LastRun, r.LastSeed))
			continue
		}
		var races []RaceClass
		for _, rep := range splitRaceReports(r.RaceLog) {
			races = append(races, classifyRace(rep, b.Scratch))
		}
		switch {
		case r.ExitCode == 0 && r.Viol == nil && len(races) == 0:
			continue
		case r.Viol != nil:
			fv := &foundViolation{batch: r, keys: map[string]bool{}, races: races}
			for i := range r.Viol.Violations {
				v := &r.Viol.Violations[i]
				if kf := known.match(v); kf != nil {
					fv.known = append(fv.known, kf)
					continue
				}
				fv.keys[v.Key()] = true
			}
			harnessOnly := len(races) > 0
			for _, rc := range races {
				if rc.Verdict {
					fv.keys["O1/race"] = true
					fv.keys[rc.Key] = true
					harnessOnly = false
				} else if rc.Load {
					ev.LoadRaces++
					harnessOnly = false
				}
			}
			if len(r.Viol.Violations) == 0 && harnessOnly {
				infra = append(infra, fmt.Sprintf("race report confined to harness code in batch %d:\n%s", r.Batch.ID, tail(r.RaceLog, 3000)))
				continue
			}
			found = append(found, fv)
		default:
			infra = append(infra, fmt.Sprintf("worker for batch %d (seed %d, race=%v) exited %d at run %d seed %d\nstderr: %s\nracelog: %s",
				r.Batch.ID, r.Batch.Seed, r.Batch.Race, r.ExitCode, r.LastRun, r.LastSeed, tail(r.Stderr, 3000), tail(r.RaceLog, 3000)))
		}
	}

	canaryViolation := checkCanary(b, results, verifSeed, root, known, logf)
	aloneViolation := checkAlone(b, results, verifSeed, root, known, logf, ev)

	exit := 0
	printedKnown := map[string]bool{}
	for _, fv := range found {
		for _, kf := range fv.known {
			line := fmt.Sprintf("KNOWN-FINDING: property=C18 %s", kf.What)
			if !printedKnown[line] {
				fmt.Println(line)
				printedKnown[line] = true
			}
		}
	}
	// report at most two distinct unknown violations (each confirmed, minimised and replayed)
	const maxReported = 2
	reported := 0
	seenKey := map[string]bool{}
	for _, fv := range found {
		if len(fv.keys) == 0 {
			continue
		}
		var ks []string
		for k := range fv.keys {
			ks = append(ks, k)
		}
		sort.Strings(ks)
		sig := strings.Join(ks, "|")
		if seenKey[sig] || reported >= maxReported {
			ev.Violations++
			continue
		}
		seenKey[sig] = true
		reported++
		ev.Violations++
		if reported == 2 {
			plan.minimiseBudget /= 3
		}
		path := reportViolation(b, fv, verifSeed, plan, root, logf)
		fmt.Printf("VIOLATION property=C18 replay=%s\n", path)
		exit = 1
	}
	if canaryViolation != "" {
		ev.Violations++
		fmt.Printf("VIOLATION property=C18 replay=%s\n", canaryViolation)
		exit = 1
	}
	if aloneViolation != "" {
		ev.Violations++
		fmt.Printf("VIOLATION property=C18 replay=%s\n", aloneViolation)
		exit = 1
	}
	if exit == 0 && len(infra) > 0 {
		for _, m := range infra {
			logf("INFRASTRUCTURE: %s", m)
		}
		exit = 2
	}
	ev.expandSamples(b)
	ev.finish(time.Since(t0).Seconds())
	if exit != 2 {
		evPath := filepath.Join(root, "evidence", "C18.json")
		if evidenceOut != "" {
			evPath = evidenceOut
		}
		if err := ev.write(evPath); err != nil {
			logf("cannot write evidence: %v", err)
			return 2
		}
	}
	logf("done: %d runs (%d plain, %d race), %d distinct nontrivial schedules, %d violations, %.1fs", ev.Runs, ev.PlainRuns, ev.RaceRuns, len(ev.sigs), ev.Violations, time.Since(t0).Seconds())
	return exit
}

// reportViolation confirms, minimises and writes the replay file for one violation.
func reportViolation(b *Build, fv *foundViolation, verifSeed uint64, plan tierPlan, root string, logf func(string, ...interface{})) string {
	r := fv.batch
	bt := r.Batch
	flavour := "plain"
	if bt.Race {
		flavour = "race"
	}
	rf := &ReplayFile{Property: "C18", VerifSeed: verifSeed, Build: flavour, Violation: r.Viol.Violations, RaceReport: tail(r.RaceLog, 12000), Procs: bt.Procs}
	rdir := filepath.Join(root, "replays")
	if replaysDir != "" {
		rdir = replaysDir
	}
	path := filepath.Join(rdir, fmt.Sprintf("C18-%d.json", r.Viol.Seed))
	// batch prefix: cold run and every warm run up to the failing one
	specs, err := genPrefix(b, bt, r.Viol.Run)
	if err != nil || len(specs) != r.Viol.Run+1 {
		logf("cannot regenerate batch prefix (%v); replay file holds the failing run only", err)
		specs = []*RunSpec{r.Viol.Spec}
	}
	failing := cloneSpec(r.Viol.Spec)
	if !r.Viol.RecTrunc {
		failing.Sched.Strat = 6 // stratReplay: the recorded switch list replaces the PRNG-driven strategy
		failing.Sched.Replay = r.Viol.Recorded
		failing.Sched.First = r.Viol.First
		failing.Sched.GCRate = 0
	}
	specs[len(specs)-1] = failing
	rf.Runs = specs

	// 1. confirm in a fresh process
	conf := execReplay(b, rf, bt.Race)
	if !sameFailure(conf, fv.keys, b.Scratch) {
		// try the original PRNG-driven schedule instead of the recorded list
		specs[len(specs)-1] = cloneSpec(r.Viol.Spec)
		rf.Runs = specs
		conf = execReplay(b, rf, bt.Race)
	}
	if !sameFailure(conf, fv.keys, b.Scratch) {
		// observed against the real code but not reproducible: still a violation (DESIGN §4.8)
		n, ok := 0, 0
		for i := 0; i < 5; i++ {
			n++
			if sameFailure(execReplay(b, rf, bt.Race), fv.keys, b.Scratch) {
				ok++
			}
		}
		rf.Reproducible = false
		rf.ReproRate = fmt.Sprintf("%d/%d", ok, n)
		rf.Note = "violation observed in the batch but not reproduced by replaying the batch prefix in a fresh process; unminimised"
		_ = writeJSON(path, rf)
		logf("violation did not reproduce on replay (%s); reported unminimised", rf.ReproRate)
		return path
	}
	logf("violation confirmed by replaying the batch prefix (%d run(s)) in a fresh process; minimising (budget %s)", len(rf.Runs), plan.minimiseBudget)
	// 2. minimise; an oracle mismatch found in the race build is minimised in the plain build
	// (same seeds, same traces, several times faster) if it reproduces there
	useRace := bt.Race
	if bt.Race {
		nonRace := map[string]bool{}
		for k := range fv.keys {
			if !strings.HasPrefix(k, "O1/") {
				nonRace[k] = true
			}
		}
		if len(nonRace) > 0 && sameFailure(execReplay(b, rf, false), nonRace, b.Scratch) {
			useRace = false
			fv.keys = nonRace
			rf.Build = "plain"
			logf("reproduces in the plain build as well; minimising there")
		}
	}
	min := minimise(b, rf, useRace, fv.keys, plan.minimiseBudget, logf)
	bt.Race = useRace
	// 3. final replay: record the violation as reproduced by the minimised file
	fin := execReplay(b, min, bt.Race)
	if sameFailure(fin, fv.keys, b.Scratch) {
		min.Reproducible = true
		if fin.viol != nil {
			min.Violation = fin.viol.Violations
		}
		if fin.raceLog != "" {
			min.RaceReport = tail(fin.raceLog, 12000)
		}
		again := execReplay(b, min, bt.Race)
		if !sameFailure(again, fv.keys, b.Scratch) {
			min.Reproducible = false
			min.ReproRate = "1/2"
		} else if again.viol != nil && fin.viol != nil && len(again.viol.Violations) > 0 && len(fin.viol.Violations) > 0 {
			a, c := again.viol.Violations[0], fin.viol.Violations[0]
			if a.Oracle != c.Oracle || a.Task != c.Task || a.OpIdx != c.OpIdx || a.Expected != c.Expected || a.Actual != c.Actual {
				min.Note = "two replays of the minimised file failed with different first violation records"
			}
		}
	} else {
		min = rf
		min.Reproducible = true
		min.Note = "minimised candidate failed to reproduce at the final check; unminimised batch prefix kept"
	}
	nops := 0
	for _, p := range min.Runs[len(min.Runs)-1].Tasks {
		nops += len(p)
	}
	logf("replay file: %d run(s), %d operation(s), %d switch point(s)", len(min.Runs), nops, len(min.Runs[len(min.Runs)-1].Sched.Replay))
	_ = writeJSON(path, min)
	return path
}

// replayCmd rebuilds from repo and executes a replay file.
func replayCmd(repo, path string) int {
	logf := func(f string, a ...interface{}) { fmt.Fprintf(os.Stderr, "[simctl] "+f+"\n", a...) }
	data, err := os.ReadFile(path)
	if err != nil {
		logf("%v", err)
		return 2
	}
	var rf ReplayFile
	if err := jsonUnmarshal(data, &rf); err != nil {
		logf("replay file: %v", err)
		return 2
	}
	race := rf.Build == "race"
	if rf.AloneBatch != nil {
		b, err := buildAll(repo, true)
		defer b.Cleanup()
		if err != nil {
			logf("BUILD FAILED: %v", err)
			return 2
		}
		cb := rf.AloneBatch
		bt := Batch{Seed: cb.Seed, Runs: cb.Runs, Race: cb.Race, Tier: cb.Tier, NoCold: cb.NoCold, ForceOp: cb.ForceOp, Procs: cb.Procs}
		f, a := aloneDigests(b, bt, rf.AloneRun, true)
		if f == nil {
			logf("INFRASTRUCTURE: the batch of the replay file did not complete")
			return 2
		}
		if f.ResHash != a.ResHash {
			where := "?"
			for i := range f.OpHashes {
				if i < len(a.OpHashes) && f.OpHashes[i] != a.OpHashes[i] {
					where = f.OpNames[i]
					break
				}
			}
			fmt.Printf("violation oracle=O8: run %d of batch %d gives result digest %s after runs 0..%d and %s alone in a fresh process; first differing operation: %s\n",
				rf.AloneRun, cb.Seed, f.ResHash, rf.AloneRun-1, a.ResHash, where)
			fmt.Printf("VIOLATION property=C18 replay=%s\n", path)
			return 1
		}
		fmt.Println("replay: no violation")
		return 0
	}
	if len(rf.CanaryBatches) == 2 {
		b, err := buildAll(repo, true)
		defer b.Cleanup()
		if err != nil {
			logf("BUILD FAILED: %v", err)
			return 2
		}
		var d [2]map[string]string
		for i, cb := range rf.CanaryBatches {
			bt := Batch{Seed: cb.Seed, Runs: cb.Runs, Race: cb.Race, Tier: cb.Tier, NoCold: cb.NoCold}
			res := runWorker(b, bt.Race, batchArgs(bt), filepath.Join(b.Scratch, fmt.Sprintf("race-canary-%d", i)), 10*time.Minute)
			if res.End == nil {
				logf("INFRASTRUCTURE: canary batch %d did not complete (exit %d): %s", cb.Seed, res.ExitCode, tail(res.Stderr, 1500))
				return 2
			}
			d[i] = res.End.Canary
		}
		if keys := canaryDiffKeys(d[0], d[1]); len(keys) > 0 {
			fmt.Printf("violation oracle=O7: canary digests differ between the two worker processes for: %s\n", strings.Join(keys, ", "))
			fmt.Printf("VIOLATION property=C18 replay=%s\n", path)
			return 1
		}
		fmt.Println("replay: no violation")
		return 0
	}
	b, err := buildAll(repo, race)
	defer b.Cleanup()
	if err != nil {
		logf("BUILD FAILED: %v", err)
		return 2
	}
	o := execReplay(b, &rf, race)
	if o.infra != "" {
		logf("INFRASTRUCTURE: %s", o.infra)
		return 2
	}
	if o.failed {
		if o.viol != nil {
			for _, v := range o.viol.Violations {
				fmt.Printf("violation oracle=%s op=%s kind=%s world=%s task=%d op_idx=%d\n  clause: %s\n  expected: %s\n  actual:   %s\n", v.Oracle, v.Op, v.Kind, v.World, v.Task, v.OpIdx, v.Clause, v.Expected, v.Actual)
			}
		}
		if o.raceLog != "" {
			fmt.Println(o.raceLog)
		}
		fmt.Printf("VIOLATION property=C18 replay=%s\n", path)
		return 1
	}
	fmt.Println("replay: no violation")
	return 0
}

// aloneDigests runs the batch prefix 0..k (in one process) and run k alone (in another) and returns the two done events of run k.
func aloneDigests(b *Build, bt Batch, k int, opHashes bool) (*doneEv, *doneEv) {
	full := bt
	full.Runs = k + 1
	fa, aa := batchArgs(full), append(batchArgs(bt), "-only", fmt.Sprint(k), "-backwards")
	if opHashes {
		fa, aa = append(fa, "-ophashes"), append(aa, "-ophashes")
	}
	f := runWorker(b, bt.Race, fa, filepath.Join(b.Scratch, "race-alone-f"), 20*time.Minute)
	a := runWorker(b, bt.Race, aa, filepath.Join(b.Scratch, "race-alone-a"), 20*time.Minute)
	if f.ExitCode != 0 || len(f.Done) != k+1 || a.ExitCode != 0 || len(a.Done) != 1 {
		return nil, nil
	}
	return &f.Done[k], &a.Done[0]
}

// checkAlone is oracle O8: the last run of a batch, executed once more alone in a fresh worker process, must give
// the results it gave after the other runs of the batch (the operations are pure: what a run returns is a function
// of its specification, not of what the process did before).  Returns the path of a replay file, or "".
func checkAlone(b *Build, results []*BatchResult, verifSeed uint64, root string, known KnownFindings, logf func(string, ...interface{}), ev *Evidence) string {
	var dev *BatchResult
	devN, na := 0, 0
	defer func() {
		if na > 0 {
			logf("O8 not applicable: a run executed alone gave different results in two fresh processes (%d batch(es)): results vary per process for a reason other than call history", na)
		}
	}()
	for _, r := range results {
		if r == nil || !r.AloneChecked {
			continue
		}
		ev.AloneChecked++
		if r.AloneNA {
			na++
			continue
		}
		if r.AloneHash == "" || r.AloneRun >= len(r.Done) || r.AloneHash == r.Done[r.AloneRun].ResHash {
			continue
		}
		devN++
		if dev == nil {
			dev = r
		}
	}
	if dev == nil {
		return ""
	}
	bt := dev.Batch
	k := dev.AloneRun
	// confirm with fresh processes, twice (a difference that does not repeat is reported as not reproducible)
	f1, a1 := aloneDigests(b, bt, k, true)
	f2, a2 := aloneDigests(b, bt, k, false)
	if f1 == nil || f2 == nil {
		logf("O8 skipped: could not repeat batch %d", bt.Seed)
		return ""
	}
	if f1.ResHash == a1.ResHash && f2.ResHash == a2.ResHash {
		logf("O8: the difference seen in batch %d (run %d) did not repeat in two further pairs of processes: results vary per process for a reason other than call history; not reported", bt.Seed, k)
		return ""
	}
	if a1.ResHash != a2.ResHash {
		logf("O8 not applicable: run %d of batch %d executed alone gives different results in two fresh processes (results vary per process for a reason other than call history)", k, bt.Seed)
		return ""
	}
	where := "?"
	for i := range f1.OpHashes {
		if i < len(a1.OpHashes) && f1.OpHashes[i] != a1.OpHashes[i] {
			where = f1.OpNames[i]
			break
		}
	}
	opk := strings.SplitN(where[strings.LastIndex(where, " ")+1:], "/", 2)
	v := Violation{Oracle: "O8", Clause: "c: results do not depend on what was called before", World: "cross-process", Verdict: true,
		Op: opk[0], Expected: fmt.Sprintf("run %d of batch %d executed alone in a fresh worker process: result digest %s", k, bt.Seed, a1.ResHash),
		Actual: fmt.Sprintf("the same run executed after runs 0..%d of the batch: result digest %s", k-1, f1.ResHash),
		Detail: "first operation whose result differs: " + where}
	if len(opk) == 2 {
		v.Kind = opk[1]
	}
	if kf := known.match(&v); kf != nil {
		fmt.Printf("KNOWN-FINDING: property=C18 %s\n", kf.What)
		return ""
	}
	logf("O8: %d batch(es) whose last run gives other results alone than after the rest of the batch; first difference in batch %d: %s", devN, bt.Seed, where)
	flavour := "plain"
	if bt.Race {
		flavour = "race"
	}
	rf := &ReplayFile{Property: "C18", VerifSeed: verifSeed, Build: flavour, Violation: []Violation{v}, Minimised: false,
		AloneBatch: &CanaryBatch{Seed: bt.Seed, Runs: bt.Runs, Race: bt.Race, Tier: bt.Tier, NoCold: bt.NoCold, ForceOp: bt.ForceOp, Procs: bt.Procs}, AloneRun: k,
		Reproducible: f1.ResHash != a1.ResHash && f2.ResHash != a2.ResHash,
		Note:         "O8: execute runs 0..alone_run of the batch in one worker process and run alone_run alone in another; the result digests of that run must be equal"}
	rdir := filepath.Join(root, "replays")
	if replaysDir != "" {
		rdir = replaysDir
	}
	path := filepath.Join(rdir, fmt.Sprintf("C18-alone-%d.json", bt.Seed))
	_ = writeJSON(path, rf)
	logf("O8 replay file written; reproducible=%v", rf.Reproducible)
	return path
}

func canaryKey(m map[string]string) string {
	ks := make([]string, 0, len(m))
	for k := range m {
		ks = append(ks, k)
	}
	sort.Strings(ks)
	var sb strings.Builder
	for _, k := range ks {
		sb.WriteString(k + "=" + m[k] + ";")
	}
	return sb.String()
}

func canaryFirstDifferent(a map[string]string, others ...map[string]string) map[string]string {
	for _, o := range others {
		if canaryKey(o) != canaryKey(a) {
			return o
		}
	}
	return a
}

func canaryDiffKeys(a, b map[string]string) []string {
	var out []string
	for k, v := range a {
		if b[k] != v {
			out = append(out, k)
		}
	}
	for k := range b {
		if _, ok := a[k]; !ok {
			out = append(out, k)
		}
	}
	sort.Strings(out)
	return uniq(out)
}

// checkCanary is oracle O7: every worker process that completed its batch must report the same digests
// for the fixed canary program.  Returns the path of a replay file if two processes disagree.
func checkCanary(b *Build, results []*BatchResult, verifSeed uint64, root string, known KnownFindings, logf func(string, ...interface{})) string {
	// The reference is what a process WITHOUT any history reports.  Two such processes are run: if they
	// disagree with each other, results vary from process to process for a reason that is not call history
	// (a constant chosen at package initialisation, e.g. a hash seed) - C18 does not forbid that, so O7 does
	// not apply and is skipped.  (A red-team candidate showed this; DESIGN §10.)
	// (the generators depend on the tier: the reference processes must be of the tier of the batches they are compared with)
	tier := "quick"
	for _, r := range results {
		if r != nil {
			tier = r.Batch.Tier
			break
		}
	}
	fresh := func(race bool, tag string) map[string]string {
		args := batchArgs(Batch{Seed: 1, Runs: 0, Tier: tier})
		if tag == "f2" {
			args = append(args, "-clockoffset", "93900") // another day, another minute: what depends on the start time shows
		}
		res := runWorker(b, race, args, filepath.Join(b.Scratch, "race-canary-"+tag), 5*time.Minute)
		if res.End == nil {
			return nil
		}
		return res.End.Canary
	}
	f1, f2, f3 := fresh(false, "f1"), fresh(false, "f2"), fresh(true, "f3")
	f4, f5 := fresh(false, "f4"), fresh(false, "f5")
	if f1 == nil || f2 == nil || f3 == nil || f4 == nil || f5 == nil {
		logf("O7 skipped: a history-free worker process did not report canary digests")
		return ""
	}
	if canaryKey(f1) != canaryKey(f2) || canaryKey(f1) != canaryKey(f3) || canaryKey(f1) != canaryKey(f4) || canaryKey(f1) != canaryKey(f5) {
		logf("O7 not applicable: canary digests differ between history-free processes (%s): results vary per process for a reason other than call history",
			strings.Join(canaryDiffKeys(f1, canaryFirstDifferent(f1, f2, f3, f4, f5)), ", "))
		return ""
	}
	refKey := canaryKey(f1)
	var dev *BatchResult
	agree, devN := 0, 0
	for _, r := range results {
		if r == nil || r.End == nil || len(r.End.Canary) == 0 || r.Viol != nil || r.ExitCode != 0 {
			continue
		}
		if canaryKey(r.End.Canary) == refKey {
			agree++
			continue
		}
		devN++
		if dev == nil || r.Batch.Runs < dev.Batch.Runs {
			dev = r
		}
	}
	if dev == nil {
		return ""
	}
	ref := &BatchResult{Batch: Batch{Seed: 1, Runs: 0, Tier: tier}, End: &endEv{Canary: f1}}
	refN := agree
	keys := canaryDiffKeys(ref.End.Canary, dev.End.Canary)
	v := Violation{Oracle: "O7", Clause: "c: results differ between worker processes with different call histories", World: "cross-process",
		Op: "canary", Kind: strings.Join(keys, ","), Verdict: true,
		Expected: fmt.Sprintf("a worker process without history (and %d of the batches)", refN), Actual: fmt.Sprintf("batch %d (one of %d deviating worker processes)", dev.Batch.Seed, devN),
		Detail: "digests of a fixed program over fixed values, computed at the end of every worker batch; operation/kind pairs that differ: " + strings.Join(keys, ", ")}
	if kf := known.match(&v); kf != nil {
		fmt.Printf("KNOWN-FINDING: property=C18 %s\n", kf.What)
		return ""
	}
	logf("O7: canary digests of %d worker process(es) differ from those of a process without history; differing: %s", devN, strings.Join(keys, ", "))
	mk := func(r *BatchResult, runs int) CanaryBatch {
		return CanaryBatch{Seed: r.Batch.Seed, Runs: runs, Race: r.Batch.Race, Tier: r.Batch.Tier, NoCold: r.Batch.NoCold}
	}
	// minimise: smallest prefix of the deviant batch that still deviates (runs are generated in order from the batch seed)
	lo, hi := 0, dev.Batch.Runs
	digestFor := func(r *BatchResult, runs int) map[string]string {
		bt := r.Batch
		bt.Runs = runs
		res := runWorker(b, bt.Race, batchArgs(bt), filepath.Join(b.Scratch, "race-canary"), 10*time.Minute)
		if res.End == nil {
			return nil
		}
		return res.End.Canary
	}
	for lo < hi {
		mid := (lo + hi) / 2
		d := digestFor(dev, mid)
		if d != nil && canaryKey(d) != canaryKey(ref.End.Canary) {
			hi = mid
		} else {
			lo = mid + 1
		}
	}
	rf := &ReplayFile{Property: "C18", VerifSeed: verifSeed, Build: "both", Violation: []Violation{v}, Minimised: true,
		CanaryBatches: []CanaryBatch{mk(ref, 0), mk(dev, hi)}, CanaryKeys: keys,
		Note: "O7: run each batch in its own worker process and compare the canary digests computed at the end; the first batch has no runs (a process without history), the second is the shortest prefix of a deviating batch that still deviates"}
	// reproducible?
	d0, d1 := digestFor(ref, 0), digestFor(dev, hi)
	rf.Reproducible = d0 != nil && d1 != nil && canaryKey(d0) != canaryKey(d1)
	rdir := filepath.Join(root, "replays")
	if replaysDir != "" {
		rdir = replaysDir
	}
	path := filepath.Join(rdir, fmt.Sprintf("C18-canary-%d.json", dev.Batch.Seed))
	_ = writeJSON(path, rf)
	logf("O7 replay file: deviating batch needs %d run(s); reproducible=%v", hi, rf.Reproducible)
	return path
}

func firstStuck(results []*BatchResult) string {
	for _, r := range results {
		if r != nil && r.ExitCode == 5 {
			s := r.Stderr
			if i := strings.Index(s, "goroutine dump follows"); i >= 0 {
				s = s[:i]
			}
			return strings.TrimSpace(tail(s, 200))
		}
	}
	return ""
}
